//! Shared harness library: read-back of a forest through xot's *public*
//! navigation API, canonical forms, structural invariant, small worlds.
use crate::sym;
use xot::{NameId, NamespaceId, Node, PrefixId, Value, ValueType, Xot};

/// XML 1.0 `Char` production.
pub fn is_xml_char(c: char) -> bool {
    // branch-free on purpose: one symbolic boolean, no path split per range
    let u = c as u32;
    (u == 9) | (u == 10) | (u == 13) | ((u >= 0x20) & (u <= 0xD7FF)) | ((u >= 0xE000) & (u <= 0xFFFD)) | (u >= 0x10000)
}

/// A symbolic string of `0..=max` XML Chars (length is a forked choice).
pub fn xml_string(name: &'static str, lenname: &'static str, min: usize, max: usize) -> String {
    let n = min + sym::choose(lenname, max - min + 1);
    let s = sym::any_string(name, n);
    for c in s.chars() {
        sym::assume(is_xml_char(c));
    }
    s
}

/// Kind code of a node (stable small integers for snapshots).
pub fn kind_code(xot: &Xot, n: Node) -> u8 {
    match xot.value_type(n) {
        ValueType::Document => 0,
        ValueType::Element => 1,
        ValueType::Text => 2,
        ValueType::Comment => 3,
        ValueType::ProcessingInstruction => 4,
        ValueType::Attribute => 5,
        ValueType::Namespace => 6,
    }
}

/// The value of one node, as plain data.
#[derive(Clone, PartialEq, Debug)]
pub struct Val {
    pub kind: u8,
    pub name: Option<NameId>,
    pub prefix: Option<PrefixId>,
    pub ns: Option<NamespaceId>,
    pub text: Option<String>,
}

pub fn val_of(xot: &Xot, n: Node) -> Val {
    match xot.value(n) {
        Value::Document => Val { kind: 0, name: None, prefix: None, ns: None, text: None },
        Value::Element(e) => Val { kind: 1, name: Some(e.name()), prefix: None, ns: None, text: None },
        Value::Text(t) => Val { kind: 2, name: None, prefix: None, ns: None, text: Some(t.get().to_string()) },
        Value::Comment(c) => Val { kind: 3, name: None, prefix: None, ns: None, text: Some(c.get().to_string()) },
        Value::ProcessingInstruction(p) => Val {
            kind: 4,
            name: Some(p.target()),
            prefix: None,
            ns: None,
            text: p.data().map(|s| s.to_string()),
        },
        Value::Attribute(a) => Val { kind: 5, name: Some(a.name()), prefix: None, ns: None, text: Some(a.value().to_string()) },
        Value::Namespace(ns) => Val { kind: 6, name: None, prefix: Some(ns.prefix()), ns: Some(ns.namespace()), text: None },
    }
}

/// Raw structural relations of one node, read through public navigation.
/// `all_children` is obtained by walking namespaces(), attributes() and
/// children() (the three public views).
#[derive(Clone, PartialEq, Debug)]
pub struct NodeSnap {
    pub node: Node,
    pub removed: bool,
    pub val: Option<Val>,
    pub parent: Option<Node>,
    pub ns_nodes: Vec<Node>,
    pub attr_nodes: Vec<Node>,
    pub children: Vec<Node>,
}

pub fn snap_node(xot: &Xot, n: Node) -> NodeSnap {
    if xot.is_removed(n) {
        return NodeSnap { node: n, removed: true, val: None, parent: None, ns_nodes: vec![], attr_nodes: vec![], children: vec![] };
    }
    let (ns_nodes, attr_nodes) = if xot.is_element(n) {
        (xot.namespaces(n).nodes().collect(), xot.attributes(n).nodes().collect())
    } else {
        (vec![], vec![])
    };
    NodeSnap {
        node: n,
        removed: false,
        val: Some(val_of(xot, n)),
        parent: xot.parent(n),
        ns_nodes,
        attr_nodes,
        children: xot.children(n).collect(),
    }
}

pub type Snap = Vec<NodeSnap>;

pub fn snapshot(xot: &Xot, nodes: &[Node]) -> Snap {
    nodes.iter().map(|n| snap_node(xot, *n)).collect()
}

/// Structural validity of everything reachable from the live handles
/// (property C04), through public navigation only. `consolidated`: text
/// consolidation was never switched off.
pub fn check_forest(xot: &Xot, nodes: &[Node], consolidated: bool) {
    for &n in nodes {
        if xot.is_removed(n) {
            continue;
        }
        let kind = kind_code(xot, n);
        // parent <-> child consistency
        if let Some(p) = xot.parent(n) {
            sym::check("parent-live", !xot.is_removed(p));
            let pk = kind_code(xot, p);
            if kind == 5 || kind == 6 {
                sym::check("attr-ns-only-under-element", pk == 1);
                let listed = if kind == 5 {
                    xot.attributes(p).nodes().any(|x| x == n)
                } else {
                    xot.namespaces(p).nodes().any(|x| x == n)
                };
                sym::check("attr-ns-listed-by-parent-view", listed);
            } else {
                sym::check("normal-child-parent-kind", pk == 0 || pk == 1);
                sym::check("child-listed-by-parent", xot.children(p).any(|x| x == n));
            }
            sym::check("document-only-root", kind != 0);
        } else {
            sym::check("parentless-no-next-sibling", xot.next_sibling(n).is_none());
            sym::check("parentless-no-prev-sibling", xot.previous_sibling(n).is_none());
        }
        // acyclic: walking parents terminates within the number of handles + slack
        let mut cur = xot.parent(n);
        let mut steps = 0usize;
        while let Some(c) = cur {
            steps += 1;
            if steps > nodes.len() + 8 {
                break;
            }
            if c == n {
                steps = usize::MAX / 2;
                break;
            }
            cur = xot.parent(c);
        }
        sym::check("acyclic", steps <= nodes.len() + 8);
        // children side
        let mut prev: Option<Node> = None;
        let mut seen_kinds_ok = true;
        for c in xot.children(n) {
            sym::check("child-live", !xot.is_removed(c));
            sym::check("child-parent-backlink", xot.parent(c) == Some(n));
            sym::check("child-prev-link", xot.previous_sibling(c) == prev);
            if let Some(p) = prev {
                sym::check("child-next-link", xot.next_sibling(p) == Some(c));
                if consolidated {
                    sym::check("no-adjacent-text", !(xot.is_text(p) && xot.is_text(c)));
                }
            }
            let ck = kind_code(xot, c);
            if ck == 0 || ck == 5 || ck == 6 {
                seen_kinds_ok = false;
            }
            prev = Some(c);
        }
        sym::check("children-are-ordinary-nodes", seen_kinds_ok);
        if let Some(last) = prev {
            sym::check("last-child-no-next", xot.next_sibling(last).is_none());
            sym::check("last-child-accessor", xot.last_child(n) == Some(last));
        } else {
            sym::check("no-children-no-first", xot.first_child(n).is_none());
        }
        if kind == 1 {
            // namespaces < attributes < ordinary children, unique keys
            let nsn: Vec<Node> = xot.namespaces(n).nodes().collect();
            let atn: Vec<Node> = xot.attributes(n).nodes().collect();
            for (i, &a) in nsn.iter().enumerate() {
                sym::check("ns-node-kind", kind_code(xot, a) == 6);
                sym::check("ns-node-parent", xot.parent(a) == Some(n));
                for &b in &nsn[..i] {
                    let pa = xot.namespace_node(a).map(|x| x.prefix());
                    let pb = xot.namespace_node(b).map(|x| x.prefix());
                    sym::check("unique-prefix-per-element", pa != pb);
                }
            }
            for (i, &a) in atn.iter().enumerate() {
                sym::check("attr-node-kind", kind_code(xot, a) == 5);
                sym::check("attr-node-parent", xot.parent(a) == Some(n));
                for &b in &atn[..i] {
                    let na = xot.attribute_node(a).map(|x| x.name());
                    let nb = xot.attribute_node(b).map(|x| x.name());
                    sym::check("unique-attribute-name-per-element", na != nb);
                }
            }
            // physical order through the sibling links of the special nodes
            let mut order: Vec<u8> = Vec::new();
            if let Some(&first) = nsn.first().or(atn.first()) {
                // walk same-kind sibling chains starting at the first special node
                let mut c = Some(first);
                let mut guard = 0;
                while let Some(x) = c {
                    order.push(kind_code(xot, x));
                    c = xot.next_sibling(x);
                    guard += 1;
                    if guard > nodes.len() + 8 {
                        break;
                    }
                }
            }
            // every namespace/attribute node with a parent must be visible in the view
            for &m in nodes {
                if !xot.is_removed(m) && xot.parent(m) == Some(n) {
                    let mk = kind_code(xot, m);
                    if mk == 6 {
                        sym::check("ns-node-visible-in-view", nsn.contains(&m));
                    } else if mk == 5 {
                        sym::check("attr-node-visible-in-view", atn.contains(&m));
                    } else {
                        sym::check("normal-node-visible-in-children", xot.children(n).any(|x| x == m));
                    }
                }
            }
            let _ = order;
        } else {
            // non-elements carry no attribute / namespace nodes
            for &m in nodes {
                if !xot.is_removed(m) && xot.parent(m) == Some(n) {
                    let mk = kind_code(xot, m);
                    sym::check("special-node-only-under-element", mk != 5 && mk != 6);
                }
            }
        }
    }
}

/// Canonical form of a subtree (for deep-equality oracles): independent of
/// prefixes and declarations; attributes as a list in document order (the
/// comparison below treats them as a set).
#[derive(Clone, Debug)]
pub enum Canon {
    Doc(Vec<Canon>),
    El { name: (String, String), attrs: Vec<((String, String), String)>, children: Vec<Canon> },
    Text(String),
    Comment(String),
    Pi(String, Option<String>),
    Attr((String, String), String),
    Ns(String, String),
}

pub fn name_pair(xot: &Xot, name: NameId) -> (String, String) {
    let (local, ns) = xot.name_ns_str(name);
    (ns.to_string(), local.to_string())
}

pub fn canon(xot: &Xot, n: Node) -> Canon {
    match xot.value(n) {
        Value::Document => Canon::Doc(xot.children(n).map(|c| canon(xot, c)).collect()),
        Value::Element(e) => Canon::El {
            name: name_pair(xot, e.name()),
            attrs: xot.attributes(n).iter().map(|(k, v)| (name_pair(xot, k), v.to_string())).collect(),
            children: xot.children(n).map(|c| canon(xot, c)).collect(),
        },
        Value::Text(t) => Canon::Text(t.get().to_string()),
        Value::Comment(c) => Canon::Comment(c.get().to_string()),
        Value::ProcessingInstruction(p) => {
            Canon::Pi(xot.name_ns_str(p.target()).0.to_string(), p.data().map(|s| s.to_string()))
        }
        Value::Attribute(a) => Canon::Attr(name_pair(xot, a.name()), a.value().to_string()),
        Value::Namespace(ns) => {
            Canon::Ns(xot.prefix_str(ns.prefix()).to_string(), xot.namespace_str(ns.namespace()).to_string())
        }
    }
}

fn attrs_eq(a: &[((String, String), String)], b: &[((String, String), String)]) -> bool {
    if a.len() != b.len() {
        return false;
    }
    for (ka, va) in a {
        let mut found = false;
        for (kb, vb) in b {
            if ka == kb {
                if va != vb {
                    return false;
                }
                found = true;
            }
        }
        if !found {
            return false;
        }
    }
    true
}

pub fn canon_list_eq(a: &[Canon], b: &[Canon]) -> bool {
    if a.len() != b.len() {
        return false;
    }
    for (x, y) in a.iter().zip(b.iter()) {
        if !canon_eq(x, y) {
            return false;
        }
    }
    true
}

/// Canonical-form equality (attribute order irrelevant).
pub fn canon_eq(a: &Canon, b: &Canon) -> bool {
    match (a, b) {
        (Canon::Doc(x), Canon::Doc(y)) => canon_list_eq(x, y),
        (Canon::El { name: n1, attrs: a1, children: c1 }, Canon::El { name: n2, attrs: a2, children: c2 }) => {
            n1 == n2 && attrs_eq(a1, a2) && canon_list_eq(c1, c2)
        }
        (Canon::Text(x), Canon::Text(y)) => x == y,
        (Canon::Comment(x), Canon::Comment(y)) => x == y,
        (Canon::Pi(t1, d1), Canon::Pi(t2, d2)) => t1 == t2 && d1 == d2,
        (Canon::Attr(k1, v1), Canon::Attr(k2, v2)) => k1 == k2 && v1 == v2,
        (Canon::Ns(p1, n1), Canon::Ns(p2, n2)) => p1 == p2 && n1 == n2,
        _ => false,
    }
}

/// Declarations of an element as (prefix, uri) strings in order.
pub fn decls(xot: &Xot, n: Node) -> Vec<(String, String)> {
    xot.namespaces(n).iter().map(|(p, ns)| (xot.prefix_str(p).to_string(), xot.namespace_str(*ns).to_string())).collect()
}

/// Full form incl. declarations and attribute order, for "same tree" claims.
#[derive(Clone, Debug, PartialEq)]
pub enum Full {
    Doc(Vec<Full>),
    El { name: (String, String), decls: Vec<(String, String)>, attrs: Vec<((String, String), String)>, children: Vec<Full> },
    Text(String),
    Comment(String),
    Pi(String, Option<String>),
    Other,
}

pub fn full(xot: &Xot, n: Node) -> Full {
    match xot.value(n) {
        Value::Document => Full::Doc(xot.children(n).map(|c| full(xot, c)).collect()),
        Value::Element(e) => Full::El {
            name: name_pair(xot, e.name()),
            decls: decls(xot, n),
            attrs: xot.attributes(n).iter().map(|(k, v)| (name_pair(xot, k), v.to_string())).collect(),
            children: xot.children(n).map(|c| full(xot, c)).collect(),
        },
        Value::Text(t) => Full::Text(t.get().to_string()),
        Value::Comment(c) => Full::Comment(c.get().to_string()),
        Value::ProcessingInstruction(p) => {
            Full::Pi(xot.name_ns_str(p.target()).0.to_string(), p.data().map(|s| s.to_string()))
        }
        _ => Full::Other,
    }
}
