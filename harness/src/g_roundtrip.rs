//! C01: serialise-then-parse through the public API (to_string / parse).
use crate::common::*;
use crate::sym;
use crate::t_names::{config, ids, scope, CONFIGS};
use xot::Xot;

pub fn register(v: &mut Vec<(&'static str, crate::Harness)>) {
    v.push(("h_c01_text", h_c01_text));
    v.push(("h_c01_attr", h_c01_attr));
    v.push(("h_c01_mixed", h_c01_mixed));
    v.push(("h_c01_ns", h_c01_ns));
    v.push(("h_c01_nsuri", h_c01_nsuri));
}

/// serialise `node` (a document), parse the result, compare full forms
fn roundtrip(xot: &mut Xot, doc: xot::Node, what: &'static str) {
    let before = full(xot, doc);
    match xot.to_string(doc) {
        Ok(s) => {
            sym::emit_str("xml", &s);
            match xot.parse(&s) {
                Ok(doc2) => {
                    let after = full(xot, doc2);
                    sym::check(what, before == after);
                }
                Err(_) => sym::check("serialised-text-is-accepted-by-the-parser", false),
            }
        }
        Err(_) => sym::cover("serialisation-refused"),
    }
}

pub fn h_c01_text() {
    let mut xot = Xot::new();
    let a = xot.add_name("a");
    let el = xot.new_element(a);
    let doc = xot.new_document_with_element(el).unwrap();
    let t = xml_string("t", "len", 1, sym::param("N", 2));
    xot.append_text(el, &t).unwrap();
    roundtrip(&mut xot, doc, "text-roundtrip");
}

pub fn h_c01_attr() {
    let mut xot = Xot::new();
    let a = xot.add_name("a");
    let x = xot.add_name("x");
    let el = xot.new_element(a);
    let doc = xot.new_document_with_element(el).unwrap();
    let t = xml_string("v", "len", 0, sym::param("N", 2));
    xot.set_attribute(el, x, t);
    roundtrip(&mut xot, doc, "attribute-roundtrip");
}

/// comments, PIs, nested elements, text between them (1 symbolic char each)
pub fn h_c01_mixed() {
    let mut xot = Xot::new();
    let a = xot.add_name("a");
    let b = xot.add_name("b");
    let pi = xot.add_name("pi");
    let el = xot.new_element(a);
    let doc = xot.new_document_with_element(el).unwrap();
    let kind = sym::choose("shape", 4);
    let c = xml_string("c", "clen", 1, 1);
    // comment bodies must not contain "--" or end in '-': with one char: not '-'
    sym::assume(c != "-");
    let p = xml_string("p", "plen", 1, 1);
    // PI data: must not contain "?>" (1 char: fine) and leading whitespace is not preserved by XML
    sym::assume(p != " " && p != "\t" && p != "\n" && p != "\r");
    let t = xml_string("t", "tlen", 1, 1);
    match kind {
        0 => {
            xot.append_comment(el, &c).unwrap();
            xot.append_text(el, &t).unwrap();
        }
        1 => {
            xot.append_processing_instruction(el, pi, Some(&p)).unwrap();
            let inner = xot.new_element(b);
            xot.append(el, inner).unwrap();
            xot.append_text(inner, &t).unwrap();
        }
        2 => {
            xot.append_text(el, &t).unwrap();
            let inner = xot.new_element(b);
            xot.append(el, inner).unwrap();
            xot.append_comment(el, &c).unwrap();
            // comment and PI next to the document element too
            xot.append_comment(doc, &c).unwrap();
        }
        _ => {
            xot.append_processing_instruction(el, pi, None).unwrap();
            xot.append_text(el, &t).unwrap();
            xot.append_processing_instruction(doc, pi, Some(&p)).unwrap();
        }
    }
    roundtrip(&mut xot, doc, "mixed-content-roundtrip");
}

/// namespace layouts: two nested elements with declaration configs, names in
/// the namespaces; whenever serialisation succeeds the reparsed tree has the
/// same expanded names, attributes and the same declarations on the same elements
pub fn h_c01_ns() {
    let mut xot = Xot::new();
    let i = ids(&mut xot);
    let c0 = sym::choose("c0", CONFIGS);
    let c1 = sym::choose("c1", CONFIGS);
    let ns0 = [i.none, i.a, i.b][sym::choose("ns0", 3)];
    let ns1 = [i.none, i.a, i.b][sym::choose("ns1", 3)];
    let nsa = [i.none, i.a][sym::choose("nsa", 2)];
    let n0 = xot.add_name_ns("r", ns0);
    let n1 = xot.add_name_ns("e", ns1);
    let na = xot.add_name_ns("t", nsa);
    let e0 = xot.new_element(n0);
    let doc = xot.new_document_with_element(e0).unwrap();
    let e1 = xot.new_element(n1);
    xot.append(e0, e1).unwrap();
    for (p, ns) in config(&i, c0) {
        xot.set_namespace(e0, p, ns);
    }
    for (p, ns) in config(&i, c1) {
        xot.set_namespace(e1, p, ns);
    }
    xot.set_attribute(e1, na, "v");
    // a childless sibling with its own declarations before a later sibling (scoping must end with the element)
    let sib = xot.new_element(n1);
    xot.append(e0, sib).unwrap();
    // known defect (shared with C10): an element in no namespace is written unprefixed although
    // a default namespace is in scope, so it re-parses into that namespace
    let xml = (xot.xml_prefix(), xot.xml_namespace());
    let chain = vec![config(&i, c0), config(&i, c1)];
    let def0 = scope(&i, xml, &chain[..1]).iter().any(|(p, _)| *p == i.empty);
    let def1 = scope(&i, xml, &chain[..2]).iter().any(|(p, _)| *p == i.empty);
    sym::class(
        "KF-no-namespace-element-under-default-namespace",
        (ns0 == i.none && def0) || (ns1 == i.none && (def1 || def0)),
    );
    roundtrip(&mut xot, doc, "namespace-roundtrip");
}

/// a namespace name containing any XML Char (it is written as an attribute value)
pub fn h_c01_nsuri() {
    let mut xot = Xot::new();
    let c = xml_string("c", "len", 1, sym::param("N", 2));
    let mut uri = String::from("u");
    uri.push_str(&c);
    let ns = xot.add_namespace(&uri);
    let default = sym::choose("default", 2) == 1;
    let p = if default { xot.empty_prefix() } else { xot.add_prefix("p") };
    let a = xot.add_name_ns("a", ns);
    let x = xot.add_name("x");
    let el = xot.new_element(a);
    xot.set_namespace(el, p, ns);
    xot.set_attribute(el, x, "v");
    let doc = xot.new_document_with_element(el).unwrap();
    roundtrip(&mut xot, doc, "namespace-name-roundtrip");
}
