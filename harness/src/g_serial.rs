//! C10, C14, C15, C16: serialisation (XML), namespace repair / deduplication.
use crate::common::*;
use crate::sym;
use crate::t_names::{config, ids, scope, Ids, CONFIGS};
use xot::output::xml::{Declaration, Parameters};
use xot::output::{Indentation, NoopNormalizer, Output, TokenSerializeParameters};
use xot::{NameId, NamespaceId, Node, PrefixId, Xot};

pub fn register(v: &mut Vec<(&'static str, crate::Harness)>) {
    v.push(("h_c10_names", h_c10_names));
    v.push(("h_c10_missing_prefixes", h_c10_missing_prefixes));
    v.push(("h_c10_loose", h_c10_loose));
    v.push(("h_c15_dedup", h_c15_dedup));
    v.push(("h_c14_cdata", h_c14_cdata));
    v.push(("h_c14_gt", h_c14_gt));
    v.push(("h_c14_pretty", h_c14_pretty));
    v.push(("h_c16_tokens", h_c16_tokens));
    v.push(("h_c16_outputs", h_c16_outputs));
    v.push(("h_c16_deep", h_c16_deep));
}

fn one(name: &'static str) -> String {
    let s = sym::any_string(name, 1);
    for c in s.chars() {
        sym::assume(is_xml_char(c));
    }
    s
}

struct Chain {
    doc: Node,
    e: [Node; 3],
    chain: Vec<Vec<(PrefixId, NamespaceId)>>,
    ns: [NamespaceId; 3],
    at_ns: NamespaceId,
}

/// document > e0[c0] > e1[c1] > e2 with names in chosen namespaces; e2 carries an attribute
fn build_chain(xot: &mut Xot, i: &Ids, cfgs: usize, with_c2: bool) -> Chain {
    let c0 = sym::choose("c0", cfgs);
    let c1 = sym::choose("c1", cfgs);
    let c2 = if with_c2 { sym::choose("c2", sym::param("CFG2", cfgs)) } else { 0 };
    let pick = |k: usize| [i.none, i.a, i.b][k];
    let nsk = sym::param("NSK", 3);
    let k0 = sym::choose("ns0", nsk);
    let k1 = sym::choose("ns1", nsk);
    // SAMEINNER: both inner elements in the same namespace (halves the layouts of the quick tier)
    let k2 = if sym::param("SAMEINNER", 0) == 1 { k1 } else { sym::choose("ns2", nsk) };
    let ns = [pick(k0), pick(k1), pick(k2)];
    let at_ns = [i.none, i.a][sym::choose("nsa", 2)];
    let n0 = xot.add_name_ns("r", ns[0]);
    let n1 = xot.add_name_ns("e", ns[1]);
    let n2 = xot.add_name_ns("f", ns[2]);
    let na = xot.add_name_ns("t", at_ns);
    let e0 = xot.new_element(n0);
    let doc = xot.new_document_with_element(e0).unwrap();
    let e1 = xot.new_element(n1);
    let e2 = xot.new_element(n2);
    xot.append(e0, e1).unwrap();
    xot.append(e1, e2).unwrap();
    // DEDUPORDER: the layout order used by the C15 harness, so that its reduced quick tier (the first
    // CFG layouts) contains "same namespace under two prefixes on one element" and xmlns=""
    let map: [usize; 8] = if sym::param("DEDUPORDER", 0) == 1 { [0, 1, 3, 5, 4, 2, 6, 7] } else { [0, 1, 2, 3, 4, 5, 6, 7] };
    let chain = vec![config(i, map[c0]), config(i, map[c1]), config(i, map[c2])];
    for (el, decls) in [e0, e1, e2].iter().zip(chain.iter()) {
        for (p, n) in decls {
            xot.set_namespace(*el, *p, *n);
        }
    }
    xot.set_attribute(e2, na, "v");
    Chain { doc, e: [e0, e1, e2], chain, ns, at_ns }
}

/// is an element in no namespace inside the scope of a default namespace? (known defect)
fn default_capture(i: &Ids, xot: &Xot, ch: &Chain, from: usize) -> bool {
    let xml = (xot.xml_prefix(), xot.xml_namespace());
    let mut hit = false;
    for k in from..3 {
        let sc = scope(i, xml, &ch.chain[from.min(k)..=k]);
        let sc_full = scope(i, xml, &ch.chain[..=k]);
        let _ = sc;
        if ch.ns[k] == i.none && sc_full.iter().any(|(p, _)| *p == i.empty) {
            hit = true;
        }
    }
    hit
}

/// C10: whatever serialises, re-parses with the same expanded names (whole
/// document and a subtree serialised on its own)
pub fn h_c10_names() {
    let mut xot = Xot::new();
    let i = ids(&mut xot);
    let ch = build_chain(&mut xot, &i, CONFIGS, false);
    let which = sym::choose("root", 2);
    let node = if which == 0 { ch.doc } else { ch.e[1] };
    sym::class("KF-no-namespace-element-under-default-namespace", default_capture(&i, &xot, &ch, 0));
    match xot.to_string(node) {
        Ok(s) => match xot.parse(&s) {
            Ok(d2) => {
                let top = if which == 0 { d2 } else { xot.document_element(d2).unwrap() };
                sym::check("every-name-resolves-to-its-expanded-name", canon_eq(&canon(&xot, node), &canon(&xot, top)));
            }
            Err(_) => sym::check("serialised-text-is-accepted-by-the-parser", false),
        },
        Err(_) => sym::cover("serialisation-refused"),
    }
}

/// C10: create_missing_prefixes makes every tree serialisable without changing it
pub fn h_c10_missing_prefixes() {
    let mut xot = Xot::new();
    let i = ids(&mut xot);
    let ch = build_chain(&mut xot, &i, sym::param("CFG", 5), false);
    let target = sym::choose("target", 4); // document, root element, inner elements
    let node = [ch.doc, ch.e[0], ch.e[1], ch.e[2]][target];
    // an attribute in the xml namespace never needs a declaration
    let lang = xot.add_name_ns("lang", xot.xml_namespace());
    xot.set_attribute(ch.e[1], lang, "en");
    // a prefix with the name the repair would generate next, declared two levels below the repaired node
    if target < 2 && sym::choose("n0decl", 2) == 1 {
        let pn0 = xot.add_prefix("n0");
        xot.set_namespace(ch.e[2], pn0, i.b);
    }
    let before = canon(&xot, ch.doc);
    sym::class("KF-no-namespace-element-under-default-namespace", default_capture(&i, &xot, &ch, 0));
    let r = xot.create_missing_prefixes(node);
    sym::check("create-missing-prefixes-succeeds", r.is_ok());
    sym::check("no-name-attribute-or-content-changed", canon_eq(&before, &canon(&xot, ch.doc)));
    // the part that was repaired serialises and re-parses to the same canonical form
    let part = if target >= 2 { node } else { ch.doc };
    let whole_ok_needed = target < 2;
    match xot.to_string(part) {
        Ok(s) => match xot.parse(&s) {
            Ok(d2) => {
                let top = if target >= 2 { xot.document_element(d2).unwrap() } else { d2 };
                sym::check("repaired-tree-reparses-deep-equal", canon_eq(&canon(&xot, part), &canon(&xot, top)));
            }
            Err(_) => sym::check("serialised-text-is-accepted-by-the-parser", false),
        },
        Err(_) => sym::check("serialisation-succeeds-after-repair", false),
    }
    let _ = whole_ok_needed;
    // repairing the inner element is enough for the whole document too, when only its subtree was in need
    // a second round: a node in a new namespace is added, then the call is repeated
    let nsc = xot.add_namespace("urn:c");
    let nc = xot.add_name_ns("late", nsc);
    let late = xot.new_element(nc);
    xot.append(ch.e[2], late).unwrap();
    let before2 = canon(&xot, ch.doc);
    let r2 = xot.create_missing_prefixes(node);
    sym::check("second-call-succeeds", r2.is_ok());
    sym::check("second-call-changes-no-name", canon_eq(&before2, &canon(&xot, ch.doc)));
    match xot.to_string(part) {
        Ok(s) => match xot.parse(&s) {
            Ok(d2) => {
                let top = if target >= 2 { xot.document_element(d2).unwrap() } else { d2 };
                sym::check("second-repair-reparses-deep-equal", canon_eq(&canon(&xot, part), &canon(&xot, top)));
            }
            Err(_) => sym::check("serialised-text-is-accepted-by-the-parser", false),
        },
        Err(_) => sym::check("serialisation-succeeds-after-second-repair", false),
    }
}

/// C15: deduplicate_namespaces only removes redundant declarations
pub fn h_c15_dedup() {
    let mut xot = Xot::new();
    let i = ids(&mut xot);
    let ch = build_chain(&mut xot, &i, sym::param("CFG", CONFIGS), true);
    // an extra inner element with a prefixed attribute in namespace A and its own declaration
    let na = xot.add_name_ns("k", i.a);
    let nf = xot.add_name_ns("g", ch.ns[2]);
    let e3 = xot.new_element(nf);
    xot.append(ch.e[2], e3).unwrap();
    let c3 = sym::choose("c3", 3);
    match c3 {
        1 => xot.set_namespace(e3, i.q, i.a),
        2 => {
            xot.set_namespace(e3, i.empty, i.a);
            xot.set_namespace(e3, i.q, i.a);
        }
        _ => {}
    }
    xot.set_attribute(e3, na, "w");
    let all = [ch.e[0], ch.e[1], ch.e[2], e3];
    let before_decls: Vec<Vec<(String, String)>> = all.iter().map(|e| decls(&xot, *e)).collect();
    let before = canon(&xot, ch.doc);
    let before_str = xot.to_string(ch.doc);
    sym::class("KF-no-namespace-element-under-default-namespace", default_capture(&i, &xot, &ch, 0));
    // known defect: the element whose attribute needs a prefixed binding declares that namespace
    // as default namespace *and* under a prefix; both declarations are judged redundant
    // all declarations along the path, outermost first
    let mut path: Vec<Vec<(PrefixId, NamespaceId)>> = ch.chain.clone();
    path.push(match c3 {
        1 => vec![(i.q, i.a)],
        2 => vec![(i.empty, i.a), (i.q, i.a)],
        _ => vec![],
    });
    // the prefixed declaration the attribute (namespace A) relies on: the nearest one
    let mut level_p: Option<usize> = None;
    for (k, ds) in path.iter().enumerate() {
        if ds.iter().any(|(p, n)| *p != i.empty && *n == i.a) {
            level_p = Some(k);
        }
    }
    // known defect 1: A is also declared as default namespace at or below that element: the
    // attribute marks the wrong tracker entry and the prefixed declaration is judged redundant
    let default_at_or_below = match level_p {
        Some(lp) => path.iter().enumerate().any(|(k, ds)| k >= lp && ds.iter().any(|(p, n)| *p == i.empty && *n == i.a)),
        None => false,
    };
    // the same for the attribute on the third element (when it is in namespace A)
    let mut default_at_or_below2 = false;
    if ch.at_ns == i.a {
        let mut lp2: Option<usize> = None;
        for (k, ds) in path[..3].iter().enumerate() {
            if ds.iter().any(|(p, n)| *p != i.empty && *n == i.a) {
                lp2 = Some(k);
            }
        }
        if let Some(lp) = lp2 {
            default_at_or_below2 = path[..3].iter().enumerate().any(|(k, ds)| k >= lp && ds.iter().any(|(p, n)| *p == i.empty && *n == i.a));
        }
    }
    sym::class("KF-C15-own-default-and-prefixed-declaration-both-removed", default_at_or_below || default_at_or_below2);
    // known defect 2: a prefix is re-declared with another namespace further down: a declaration
    // that looked redundant because of that prefix is removed although descendants cannot use it
    let mut shadowing = false;
    for (k, ds) in path.iter().enumerate() {
        for (p, n) in ds {
            for ds2 in path[k + 1..].iter() {
                if *p != i.empty && ds2.iter().any(|(p2, n2)| p2 == p && n2 != n) {
                    shadowing = true;
                }
            }
        }
    }
    sym::class("KF-C15-declaration-removed-although-descendant-shadows-the-other-prefix", shadowing);
    // called on the document or (for the layouts without own declarations on the extra element) on an inner element
    let target = if c3 == 0 && sym::choose("target", 2) == 1 { ch.e[1] } else { ch.doc };
    xot.deduplicate_namespaces(target);
    for (k, e) in all.iter().enumerate() {
        let after = decls(&xot, *e);
        for d in &after {
            sym::check("no-declaration-added-or-altered", before_decls[k].contains(d));
        }
        // relative order of the survivors is kept
        let mut pos = 0usize;
        let mut ordered = true;
        for d in &after {
            match before_decls[k][pos..].iter().position(|x| x == d) {
                Some(p) => pos += p + 1,
                None => ordered = false,
            }
        }
        sym::check("declaration-order-kept", ordered);
    }
    sym::check("no-name-attribute-or-content-changed", canon_eq(&before, &canon(&xot, ch.doc)));
    if before_str.is_ok() {
        match xot.to_string(ch.doc) {
            Ok(s) => match xot.parse(&s) {
                Ok(d2) => sym::check("deduplicated-tree-reparses-deep-equal", canon_eq(&before, &canon(&xot, d2))),
                Err(_) => sym::check("serialised-text-is-accepted-by-the-parser", false),
            },
            Err(_) => sym::check("still-serialises-after-deduplication", false),
        }
    }
    let once: Vec<Vec<(String, String)>> = all.iter().map(|e| decls(&xot, *e)).collect();
    // known defect: once the first pass has removed a default-namespace declaration, a prefixed
    // declaration that was only kept because of it becomes removable in a second pass
    let mut default_removed = false;
    for k in 0..all.len() {
        for d in &before_decls[k] {
            if d.0.is_empty() && !once[k].contains(d) {
                default_removed = true;
            }
        }
    }
    sym::class("KF-C15-second-pass-after-default-declaration-removed", default_removed);
    xot.deduplicate_namespaces(target);
    let twice: Vec<Vec<(String, String)>> = all.iter().map(|e| decls(&xot, *e)).collect();
    sym::check("second-call-removes-nothing", once == twice);
}

// ---------------------------------------------------------------------------
// C14

fn brackets(name: &'static str, lenname: &'static str, max: usize) -> String {
    // text concentrating on ']' and '>' runs: each char is ']' , '>' or any XML Char
    // choices max and max + 1: a fixed "]]>" with arbitrary XML Chars (any UTF-8 width) before / after / inside it
    let k = sym::choose(lenname, max + 2);
    let n = if k < max { 1 + k } else { 2 };
    let s = sym::any_string(name, n);
    for c in s.chars() {
        sym::assume(is_xml_char(c));
    }
    if k < max {
        return s;
    }
    let mut it = s.chars();
    let (c0, c1) = (it.next().unwrap(), it.next().unwrap());
    if k == max {
        format!("{}]]>{}", c0, c1)
    } else {
        format!("{}]{}]>", c0, c1)
    }
}

pub fn h_c14_cdata() {
    let mut xot = Xot::new();
    let (na, nb) = (xot.add_name("a"), xot.add_name("b"));
    let a = xot.new_element(na);
    let doc = xot.new_document_with_element(a).unwrap();
    let t = brackets("t", "len", sym::param("N", 3));
    xot.append_text(a, &t).unwrap();
    let b = xot.new_element(nb);
    xot.append(a, b).unwrap();
    let u = if sym::param("SYMU", 0) == 1 { one("u") } else { "]]>".to_string() };
    xot.append_text(b, &u).unwrap();
    let set = sym::choose("cdata", 3);
    let cdata = match set {
        0 => vec![na],
        1 => vec![na, nb],
        _ => vec![nb],
    };
    let params = Parameters { cdata_section_elements: cdata, unescaped_gt: sym::any_bool("gt"), ..Default::default() };
    let before = canon(&xot, doc);
    match xot.serialize_xml_string(params, doc) {
        Ok(s) => {
            sym::emit_str("xml", &s);
            match xot.parse(&s) {
                Ok(d2) => sym::check("cdata-output-reparses-deep-equal", canon_eq(&before, &canon(&xot, d2))),
                Err(_) => sym::check("serialised-text-is-accepted-by-the-parser", false),
            }
        }
        Err(_) => sym::check("serialisation-succeeds", false),
    }
}

pub fn h_c14_gt() {
    let mut xot = Xot::new();
    let na = xot.add_name("a");
    let a = xot.new_element(na);
    let doc = xot.new_document_with_element(a).unwrap();
    let t = brackets("t", "len", sym::param("N", 3));
    xot.append_text(a, &t).unwrap();
    let decl = sym::choose("decl", 3);
    let declaration = match decl {
        0 => None,
        1 => Some(Declaration { encoding: None, standalone: None }),
        _ => Some(Declaration { encoding: Some("UTF-8".to_string()), standalone: Some(true) }),
    };
    let params = Parameters { unescaped_gt: true, declaration, ..Default::default() };
    let before = canon(&xot, doc);
    match xot.serialize_xml_string(params, doc) {
        Ok(s) => match xot.parse(&s) {
            Ok(d2) => sym::check("unescaped-gt-output-reparses-deep-equal", canon_eq(&before, &canon(&xot, d2))),
            Err(_) => sym::check("serialised-text-is-accepted-by-the-parser", false),
        },
        Err(_) => sym::check("serialisation-succeeds", false),
    }
}

fn only_ws(s: &str) -> bool {
    s.chars().all(|c| (c == ' ') | (c == '\t') | (c == '\r') | (c == '\n'))
}

/// compare reparsed pretty output with the original: only whitespace-only text
/// nodes may have been added, and none where the property forbids it
fn pretty_compare(xot: &Xot, orig: Node, got: Node, preserve: bool, inside: bool, suppress: &[NameId]) {
    // preserve: inside the scope of xml:space="preserve" (ended by a nearer xml:space="default");
    // inside: below an element with mixed content or an element of the suppress list (nothing ends that)
    let ko: Vec<Node> = xot.children(orig).collect();
    let kg: Vec<Node> = xot.children(got).collect();
    let mixed = ko.iter().any(|n| xot.is_text(*n));
    let space = xot.xml_space_name();
    let here_preserve = match xot.get_attribute(orig, space) {
        Some("preserve") => true,
        Some("default") => false,
        _ => preserve,
    };
    let suppressed = xot.is_element(orig) && suppress.contains(&xot.node_name(orig).unwrap());
    let here_inside = inside || mixed || suppressed;
    let no_add = here_preserve || here_inside;
    if no_add {
        sym::check("no-whitespace-added-where-forbidden", kg.len() == ko.len());
    }
    // the non-added children correspond one to one
    let kept: Vec<Node> = if no_add {
        kg.clone()
    } else {
        kg.iter().copied().filter(|n| !(xot.is_text(*n) && only_ws(xot.text_str(*n).unwrap()))).collect()
    };
    sym::check("only-whitespace-text-added", kept.len() == ko.len());
    if kept.len() != ko.len() {
        return;
    }
    for (o, g) in ko.iter().zip(kept.iter()) {
        if xot.is_element(*o) {
            sym::check("same-element", xot.is_element(*g) && xot.shallow_equal(*o, *g));
            if xot.is_element(*g) {
                pretty_compare(xot, *o, *g, here_preserve, here_inside, suppress);
            }
        } else {
            sym::check("same-leaf", xot.deep_equal(*o, *g));
        }
    }
}

pub fn h_c14_pretty() {
    let mut xot = Xot::new();
    let (na, nb, nc) = (xot.add_name("a"), xot.add_name("b"), xot.add_name("c"));
    let a = xot.new_element(na);
    let doc = xot.new_document_with_element(a).unwrap();
    // a > b > c > (text | element), with xml:space at chosen depths and an optional text child making b mixed
    let b = xot.new_element(nb);
    let c = xot.new_element(nc);
    let d = xot.new_element(nb);
    xot.append(a, b).unwrap();
    xot.append(b, c).unwrap();
    xot.append(c, d).unwrap();
    let e = xot.new_element(nc);
    xot.append(a, e).unwrap();
    let space = xot.xml_space_name();
    let xs_a = sym::choose("xs_a", 3);
    let xs_b = sym::choose("xs_b", 3);
    let xs_c = sym::choose("xs_c", 3);
    for (el, xs) in [(a, xs_a), (b, xs_b), (c, xs_c)] {
        match xs {
            1 => xot.set_attribute(el, space, "preserve"),
            2 => xot.set_attribute(el, space, "default"),
            _ => {}
        }
    }
    let mixed_at = sym::choose("mixed", 4);
    let t = if sym::param("SYMT", 0) == 1 { one("t") } else { "x".to_string() };
    sym::assume(!only_ws(&t));
    match mixed_at {
        1 => xot.append_text(b, &t).unwrap(),
        2 => xot.append_text(c, &t).unwrap(),
        3 => xot.append_text(d, &t).unwrap(),
        _ => {}
    }
    let sup = sym::choose("suppress", 3);
    let suppress: Vec<NameId> = match sup {
        1 => vec![nb],
        2 => vec![nc],
        _ => vec![],
    };
    let params = Parameters { indentation: Some(Indentation { suppress: suppress.clone() }), ..Default::default() };
    let node = if sym::choose("node", 2) == 0 { doc } else { a };
    // the pretty token stream is the other entry point with a suppress list: what it spells must be the same text
    let mut from_tokens = String::new();
    let tp = TokenSerializeParameters { cdata_section_elements: vec![], unescaped_gt: false };
    for (_n, _o, t) in xot.pretty_tokens(node, tp, &suppress, NoopNormalizer) {
        for _ in 0..t.indentation {
            from_tokens.push_str("  ");
        }
        if t.space {
            from_tokens.push(' ');
        }
        from_tokens.push_str(&t.text);
        if t.newline {
            from_tokens.push('\n');
        }
    }
    match xot.serialize_xml_string(params, node) {
        Ok(s) => {
            sym::emit_str("xml", &s);
            sym::check("pretty-tokens-spell-the-same-text", from_tokens == s);
            match xot.parse(&s) {
                Ok(d2) => {
                    let top = xot.document_element(d2).unwrap();
                    sym::check("root-element-same", xot.shallow_equal(a, top));
                    pretty_compare(&xot, a, top, false, false, &suppress);
                }
                Err(_) => sym::check("serialised-text-is-accepted-by-the-parser", false),
            }
        }
        Err(_) => sym::check("serialisation-succeeds", false),
    }
}

// ---------------------------------------------------------------------------
// C16

fn small_tree(xot: &mut Xot) -> (Node, Node, Vec<NameId>, Node) {
    let i = ids(xot);
    let (na, nb) = (xot.add_name("a"), xot.add_name_ns("b", i.a));
    let nx = xot.add_name("x");
    let a = xot.new_element(na);
    let doc = xot.new_document_with_element(a).unwrap();
    xot.set_namespace(a, i.p, i.a);
    xot.set_attribute(a, nx, one("v"));
    // an empty element that re-declares a prefix, followed by a name using the outer binding
    let b0 = xot.new_element(nb);
    xot.append(a, b0).unwrap();
    let shadow = sym::choose("shadow", 3);
    match shadow {
        1 => xot.set_namespace(b0, i.p, i.a),
        2 => {
            xot.set_namespace(b0, i.q, i.a);
            xot.set_namespace(b0, i.empty, i.b);
        }
        _ => {}
    }
    let b = xot.new_element(nb);
    xot.append(a, b).unwrap();
    xot.append_text(b, &one("t")).unwrap();
    xot.append_comment(a, "c").unwrap();
    let pi = xot.add_name("pi");
    xot.append_processing_instruction(a, pi, Some("d")).unwrap();
    let c = xot.new_element(na);
    xot.append(b, c).unwrap();
    (doc, a, vec![na, nb], b0)
}

pub fn h_c16_tokens() {
    let mut xot = Xot::new();
    // a name that is not used in the tree, registered first (smallest id)
    let nz = xot.add_name("zz");
    let (doc, a, names, _b0) = small_tree(&mut xot);
    let node = if sym::choose("node", 2) == 0 { doc } else { a };
    let cdata = match sym::choose("cdata", 3) {
        0 => vec![],
        1 => vec![names[1]],
        _ => vec![names[0], names[1]],
    };
    let gt = sym::choose("gt", 2) == 1;
    let tp = TokenSerializeParameters { cdata_section_elements: cdata.clone(), unescaped_gt: gt };
    // plain tokens against the string serialisation
    let want = xot.serialize_xml_string(Parameters { cdata_section_elements: cdata.clone(), unescaped_gt: gt, ..Default::default() }, node);
    let mut got = String::new();
    for (_n, _o, t) in xot.tokens(node, tp.clone(), NoopNormalizer) {
        if t.space {
            got.push(' ');
        }
        got.push_str(&t.text);
    }
    match &want {
        Ok(w) => sym::check("tokens-concatenate-to-the-string-serialisation", &got == w),
        Err(_) => sym::cover("serialisation-refused"),
    }
    // Write-based entry point emits the same bytes
    let mut buf: Vec<u8> = Vec::new();
    let wr = xot.serialize_xml_write(Parameters { cdata_section_elements: cdata.clone(), unescaped_gt: gt, ..Default::default() }, node, &mut buf);
    if let (Ok(w), Ok(())) = (&want, &wr) {
        sym::check("write-emits-the-same-bytes", String::from_utf8(buf).ok().as_ref() == Some(w));
    }
    // pretty tokens against the pretty string
    // (the two-name list is in descending id order)
    let nsup = if cdata.is_empty() && !gt { 3 } else { 2 };
    let suppress: Vec<NameId> = match sym::choose("suppress", nsup) {
        0 => vec![],
        1 => vec![names[1]],
        _ => vec![names[0], nz],
    };
    let wantp = xot.serialize_xml_string(
        Parameters { indentation: Some(Indentation { suppress: suppress.clone() }), cdata_section_elements: cdata.clone(), unescaped_gt: gt, ..Default::default() },
        node,
    );
    let mut gotp = String::new();
    for (_n, _o, t) in xot.pretty_tokens(node, tp, &suppress, NoopNormalizer) {
        for _ in 0..t.indentation {
            gotp.push_str("  ");
        }
        if t.space {
            gotp.push(' ');
        }
        gotp.push_str(&t.text);
        if t.newline {
            gotp.push('\n');
        }
    }
    if let Ok(w) = &wantp {
        sym::check("pretty-tokens-give-the-pretty-string", &gotp == w);
    }
}

pub fn h_c16_outputs() {
    let mut xot = Xot::new();
    let (doc, a, _names, b0) = small_tree(&mut xot);
    // the document, its root, or an inner element that re-declares a namespace its ancestor binds to another prefix
    let node = [doc, a, b0][sym::choose("node", 3)];
    // expected event list from the read-back
    #[derive(PartialEq, Debug)]
    enum Ev {
        Open(Node),
        Prefix(Node, PrefixId, NamespaceId),
        Attr(Node, NameId, String),
        Close(Node),
        End(Node),
        Text(Node, String),
        Comment(Node, String),
        Pi(Node, NameId, Option<String>),
    }
    fn walk(xot: &Xot, n: Node, top: Node, out: &mut Vec<Ev>) {
        match xot.value(n) {
            xot::Value::Document => {
                for c in xot.children(n) {
                    walk(xot, c, top, out);
                }
            }
            xot::Value::Element(_) => {
                out.push(Ev::Open(n));
                let mut declared: Vec<PrefixId> = Vec::new();
                for (p, ns) in xot.namespaces(n).iter() {
                    out.push(Ev::Prefix(n, p, *ns));
                    declared.push(p);
                }
                if n == top {
                    // the top element of what is serialised also announces the bindings it
                    // inherits (everything in scope that it does not declare itself)
                    for (p, ns) in xot.namespaces_in_scope(n) {
                        if !declared.contains(&p) {
                            out.push(Ev::Prefix(n, p, ns));
                        }
                    }
                }
                for (k, v) in xot.attributes(n).iter() {
                    out.push(Ev::Attr(n, k, v.clone()));
                }
                out.push(Ev::Close(n));
                for c in xot.children(n) {
                    walk(xot, c, top, out);
                }
                out.push(Ev::End(n));
            }
            xot::Value::Text(t) => out.push(Ev::Text(n, t.get().to_string())),
            xot::Value::Comment(c) => out.push(Ev::Comment(n, c.get().to_string())),
            xot::Value::ProcessingInstruction(p) => out.push(Ev::Pi(n, p.target(), p.data().map(|s| s.to_string()))),
            _ => {}
        }
    }
    let mut want = Vec::new();
    walk(&xot, node, node, &mut want);
    let mut got = Vec::new();
    for (n, o) in xot.outputs(node) {
        got.push(match o {
            Output::StartTagOpen(_) => Ev::Open(n),
            Output::Prefix(p, ns) => Ev::Prefix(n, p, ns),
            Output::Attribute(k, v) => Ev::Attr(n, k, v.to_string()),
            Output::StartTagClose => Ev::Close(n),
            Output::EndTag(_) => Ev::End(n),
            Output::Text(t) => Ev::Text(n, t.to_string()),
            Output::Comment(c) => Ev::Comment(n, c.to_string()),
            Output::ProcessingInstruction(t, d) => Ev::Pi(n, t, d.map(|s| s.to_string())),
        });
    }
    // inherited prefixes of a sub-tree root come in an unspecified order: compare as multisets there
    sym::check("output-events-count", got.len() == want.len());
    let mut same = got.len() == want.len();
    if same {
        for g in &got {
            if !want.contains(g) {
                same = false;
            }
        }
        // order of everything but the inherited declarations
        let strip = |v: &Vec<Ev>| -> Vec<usize> { v.iter().enumerate().filter(|(_, e)| !matches!(e, Ev::Prefix(..))).map(|(i, _)| i).collect() };
        let (a1, b1) = (strip(&got), strip(&want));
        if a1.len() != b1.len() {
            same = false;
        } else {
            for (x, y) in a1.iter().zip(b1.iter()) {
                if got[*x] != want[*y] {
                    same = false;
                }
            }
        }
    }
    sym::check("output-events-as-the-tree-dictates", same);
}

/// deep nesting: the indentation field of the pretty tokens and the pretty
/// string must agree at every depth
pub fn h_c16_deep() {
    let mut xot = Xot::new();
    let na = xot.add_name("a");
    let top = xot.new_element(na);
    let doc = xot.new_document_with_element(top).unwrap();
    let depth = sym::param("DEPTH", 36);
    let mut cur = top;
    for _ in 0..depth {
        let e = xot.new_element(na);
        xot.append(cur, e).unwrap();
        cur = e;
    }
    let want = xot.serialize_xml_string(Parameters { indentation: Some(Indentation { suppress: vec![] }), ..Default::default() }, doc);
    let mut got = String::new();
    let tp = TokenSerializeParameters { cdata_section_elements: vec![], unescaped_gt: false };
    for (_n, _o, t) in xot.pretty_tokens(doc, tp, &[], NoopNormalizer) {
        for _ in 0..t.indentation {
            got.push_str("  ");
        }
        if t.space {
            got.push(' ');
        }
        got.push_str(&t.text);
        if t.newline {
            got.push('\n');
        }
    }
    match want {
        Ok(w) => sym::check("pretty-tokens-give-the-pretty-string-at-depth", got == w),
        Err(_) => sym::check("serialisation-succeeds", false),
    }
}

/// C10 "for any tree at all, serialisation either fails with an error or produces text": XML serialisation of
/// single unattached nodes of every kind (and of a fragment holding text) returns - no panic edge - through
/// the string, token and pretty entry points, with and without a CDATA request; text comes back escaped.
pub fn h_c10_loose() {
    let mut xot = Xot::new();
    let t = sym::any_string("t", 1);
    for c in t.chars() {
        sym::assume(is_xml_char(c));
    }
    let na = xot.add_name("a");
    let what = sym::choose("what", 7);
    let top = match what {
        0 => xot.new_text(&t),
        1 => xot.new_comment("c"),
        2 => xot.new_processing_instruction(na, Some("d")),
        3 => xot.new_attribute_node(na, t.clone()),
        4 => {
            let p = xot.add_prefix("p");
            let n = xot.add_namespace("urn:n");
            xot.new_namespace_node(p, n)
        }
        5 => {
            let d = xot.new_document();
            xot.append_text(d, &t).unwrap();
            d
        }
        _ => xot.new_element(na),
    };
    let cdata = if sym::choose("cdata", 2) == 1 { vec![na] } else { vec![] };
    let params = Parameters { cdata_section_elements: cdata.clone(), ..Default::default() };
    let r = match sym::choose("entry", 3) {
        0 => xot.serialize_xml_string(params, top).ok(),
        1 => {
            let mut out = String::new();
            let tp = TokenSerializeParameters { cdata_section_elements: cdata.clone(), unescaped_gt: false };
            for (_n, _o, tk) in xot.tokens(top, tp, NoopNormalizer) {
                if tk.space {
                    out.push(' ');
                }
                out.push_str(&tk.text);
            }
            Some(out)
        }
        _ => xot.serialize_xml_string(Parameters { indentation: Some(Default::default()), cdata_section_elements: cdata, ..Default::default() }, top).ok(),
    };
    sym::cover("returned");
    if let (Some(s), true) = (r, what == 0 || what == 5) {
        // the text comes back when the output is put inside an element
        let mut x2 = Xot::new();
        match x2.parse(&format!("<w>{}</w>", s)) {
            Ok(d2) => {
                let w = x2.document_element(d2).unwrap();
                let want: String = if t == "\r" { "\n".to_string() } else { t.clone() };
                sym::check("loose-text-comes-back", x2.string_value(w) == want || t == "\r");
            }
            Err(_) => sym::check("serialised-text-is-accepted-by-the-parser", false),
        }
    }
}
