//! C19: HTML5 serialisation follows the HTML rules and never panics.
//!
//! The oracle is a matcher that walks the produced string guided by the tree
//! that was serialised.  It checks the clauses the property states and is
//! deliberately silent about everything else (which namespace declarations are
//! written, boolean attribute minimisation, how '>' or U+00A0 are written,
//! where indentation goes).
use crate::sym;
use xot::output::html5::Parameters;
use xot::output::Indentation;
use xot::{NameId, Node, Value, Xot};

pub fn register(v: &mut Vec<(&'static str, crate::Harness)>) {
    v.push(("h_c19_names", h_c19_names));
    v.push(("h_c19_attrs", h_c19_attrs));
    v.push(("h_c19_embedded", h_c19_embedded));
    v.push(("h_c19_loose", h_c19_loose));
    v.push(("h_c19_pi", h_c19_pi));
}

pub const XHTML: &str = "http://www.w3.org/1999/xhtml";
pub const MATHML: &str = "http://www.w3.org/1998/Math/MathML";
pub const SVG: &str = "http://www.w3.org/2000/svg";

const VOID: [&str; 14] =
    ["area", "base", "br", "col", "embed", "hr", "img", "input", "link", "meta", "param", "source", "track", "wbr"];

fn lower(s: &str) -> String {
    s.to_ascii_lowercase()
}

fn is_void(local: &str) -> bool {
    let l = lower(local);
    VOID.iter().any(|v| *v == l)
}

fn is_raw_text(local: &str) -> bool {
    let l = lower(local);
    (l == "script") | (l == "style")
}

fn is(name: &[char], s: &str) -> bool {
    let mut i = 0;
    for c in s.chars() {
        if i >= name.len() || name[i] != c {
            return false;
        }
        i += 1;
    }
    i == name.len()
}

fn num(s: &[char], radix: u32) -> Option<u32> {
    let mut v = 0u32;
    for &c in s {
        let d = if ('0'..='9').contains(&c) {
            c as u32 - '0' as u32
        } else if radix == 16 && ('a'..='f').contains(&c) {
            c as u32 - 'a' as u32 + 10
        } else if radix == 16 && ('A'..='F').contains(&c) {
            c as u32 - 'A' as u32 + 10
        } else {
            return None;
        };
        v = v.checked_mul(radix)?.checked_add(d)?;
    }
    Some(v)
}

/// decode entity and character references; None if there is a raw '&' that
/// does not start one
fn decode(raw: &[char]) -> Option<String> {
    let mut out = String::new();
    let mut i = 0;
    while i < raw.len() {
        let c = raw[i];
        if c != '&' {
            out.push(c);
            i += 1;
            continue;
        }
        let mut j = i + 1;
        let mut name: Vec<char> = Vec::new();
        while j < raw.len() && raw[j] != ';' && j - i < 10 {
            name.push(raw[j]);
            j += 1;
        }
        if j >= raw.len() || raw[j] != ';' {
            return None;
        }
        let d = if is(&name, "amp") {
            '&'
        } else if is(&name, "lt") {
            '<'
        } else if is(&name, "gt") {
            '>'
        } else if is(&name, "quot") {
            '"'
        } else if is(&name, "apos") {
            '\''
        } else if is(&name, "nbsp") {
            '\u{a0}'
        } else {
            let v = if name.len() > 2 && name[0] == '#' && name[1] == 'x' {
                num(&name[2..], 16)
            } else if name.len() > 1 && name[0] == '#' {
                num(&name[1..], 10)
            } else {
                None
            };
            match v.and_then(char::from_u32) {
                Some(c) => c,
                None => return None,
            }
        };
        out.push(d);
        i = j + 1;
    }
    Some(out)
}

struct M<'a> {
    xot: &'a Xot,
    out: Vec<char>,
    pos: usize,
    pretty: bool,
    cdata: Vec<NameId>,
    fail: Option<&'static str>,
}

impl<'a> M<'a> {
    fn peek(&self) -> Option<char> {
        if self.pos < self.out.len() {
            Some(self.out[self.pos])
        } else {
            None
        }
    }
    fn bad(&mut self, why: &'static str) -> bool {
        if self.fail.is_none() {
            self.fail = Some(why);
        }
        false
    }
    fn at(&self, s: &str) -> bool {
        let mut p = self.pos;
        for c in s.chars() {
            if p >= self.out.len() || self.out[p] != c {
                return false;
            }
            p += 1;
        }
        true
    }
    fn lit(&mut self, s: &str) -> bool {
        if self.at(s) {
            self.pos += s.chars().count();
            true
        } else {
            false
        }
    }
    fn ws(&mut self) {
        if !self.pretty {
            return;
        }
        while let Some(c) = self.peek() {
            if (c == ' ') | (c == '\n') {
                self.pos += 1;
            } else {
                break;
            }
        }
    }
    fn until(&mut self, stops: &[char]) -> Vec<char> {
        let mut v = Vec::new();
        while let Some(c) = self.peek() {
            if stops.contains(&c) {
                break;
            }
            v.push(c);
            self.pos += 1;
        }
        v
    }

    /// escaped character data up to the next markup
    fn escaped_text(&mut self, want: &str) -> bool {
        let piece = self.until(&['<']);
        match decode(&piece) {
            None => self.bad("ampersand-from-text-is-escaped"),
            Some(d) => {
                if !self.pretty && d != want {
                    // a raw '<' from the text ends the piece early
                    return self.bad("text-is-written-escaped-and-complete");
                }
                true
            }
        }
    }

    fn text(&mut self, parent: Option<Node>, want: &str) -> bool {
        let pname = parent.and_then(|p| self.xot.element(p)).map(|e| e.name());
        if let Some(pn) = pname {
            let (local, ns) = self.xot.name_ns_str(pn);
            let html = ns.is_empty() | (ns == XHTML);
            if html && is_raw_text(local) {
                if !self.lit(want) {
                    self.ws();
                    if !self.lit(want) {
                        return self.bad("script-and-style-text-is-written-raw");
                    }
                }
                return true;
            }
            if self.cdata.contains(&pn) && self.at("<![CDATA[") {
                // the text arrives as one or more CDATA sections, possibly with character references between
                // them for what a section cannot hold (a CR, which a parser would read as a line end)
                let mut got = String::new();
                loop {
                    if self.lit("<![CDATA[") {
                        while !self.at("]]>") {
                            match self.peek() {
                                Some(c) => {
                                    got.push(c);
                                    self.pos += 1;
                                }
                                None => return self.bad("cdata-section-holds-the-text"),
                            }
                        }
                        self.lit("]]>");
                    } else if self.lit("&#13;") {
                        got.push('\r');
                    } else {
                        break;
                    }
                }
                if got != want {
                    return self.bad("cdata-section-holds-the-text");
                }
                return true;
            }
        }
        self.escaped_text(want)
    }

    fn node(&mut self, n: Node, default_ns: &str) -> bool {
        match self.xot.value(n) {
            Value::Document => {
                let kids: Vec<Node> = self.xot.children(n).collect();
                for k in kids {
                    if !self.node(k, default_ns) {
                        return false;
                    }
                }
                true
            }
            Value::Element(_) => self.element(n, default_ns),
            Value::Text(t) => {
                let want = t.get().to_string();
                let parent = self.xot.parent(n);
                self.text(parent, &want)
            }
            Value::Comment(c) => {
                self.ws();
                let want = c.get().to_string();
                if self.lit("<!--") && self.lit(&want) && self.lit("-->") {
                    true
                } else {
                    self.bad("comment-is-written")
                }
            }
            Value::ProcessingInstruction(_) => {
                self.ws();
                if !self.lit("<?") {
                    return self.bad("processing-instruction-is-written");
                }
                self.until(&['>']);
                if !self.lit(">") {
                    return self.bad("processing-instruction-is-written");
                }
                true
            }
            Value::Attribute(_) | Value::Namespace(_) => true,
        }
    }

    fn element(&mut self, n: Node, default_ns: &str) -> bool {
        let name = self.xot.element(n).unwrap().name();
        let (local, ns) = self.xot.name_ns_str(name);
        let html = ns.is_empty() | (ns == XHTML);
        let embedded = (ns == MATHML) | (ns == SVG);
        self.ws();
        if !self.lit("<") {
            return self.bad("start-tag-is-written");
        }
        let tag: String = self.until(&[' ', '>', '/', '\n']).into_iter().collect();
        if html | embedded {
            if tag != local {
                return self.bad("html-mathml-svg-element-is-written-unprefixed");
            }
        } else {
            let mut suffix = String::from(":");
            suffix.push_str(local);
            if !((tag == local) | tag.ends_with(&suffix)) {
                return self.bad("start-tag-is-written");
            }
        }
        // attribute area
        let mut attrs: Vec<(String, Option<Vec<char>>)> = Vec::new();
        let mut self_closed = false;
        loop {
            match self.peek() {
                None => return self.bad("start-tag-is-closed"),
                Some('>') => {
                    self.pos += 1;
                    break;
                }
                Some('/') => {
                    self_closed = true;
                    self.pos += 1;
                }
                Some(' ') => {
                    self_closed = false;
                    self.pos += 1;
                }
                Some(_) => {
                    self_closed = false;
                    let anv = self.until(&['=', ' ', '>', '/', '"']);
                    let none = anv.is_empty();
                    let an: String = anv.into_iter().collect();
                    if none {
                        return self.bad("attribute-value-has-no-raw-quote");
                    }
                    if self.lit("=") {
                        if !self.lit("\"") {
                            return self.bad("attribute-value-has-no-raw-quote");
                        }
                        let raw = self.until(&['"']);
                        if !self.lit("\"") {
                            return self.bad("attribute-value-has-no-raw-quote");
                        }
                        attrs.push((an, Some(raw)));
                    } else {
                        attrs.push((an, None));
                    }
                    match self.peek() {
                        Some(' ') | Some('>') | Some('/') => {}
                        _ => return self.bad("attribute-value-has-no-raw-quote"),
                    }
                }
            }
        }
        if html && self_closed {
            return self.bad("html-element-is-never-self-closed");
        }
        // every attribute of the tree is there, with a value that decodes to the real one
        let actual: Vec<(NameId, String)> = self.xot.attributes(n).iter().map(|(k, v)| (k, v.clone())).collect();
        for (k, v) in actual {
            let (alocal, ans) = self.xot.name_ns_str(k);
            let mut suffix = String::from(":");
            suffix.push_str(alocal);
            let mut found = false;
            for (an, raw) in attrs.iter() {
                let hit = if ans.is_empty() { an == alocal } else { an.ends_with(&suffix) };
                if !hit {
                    continue;
                }
                found = true;
                match raw {
                    None => {
                        if lower(alocal) != lower(&v) {
                            return self.bad("attribute-value-is-preserved");
                        }
                    }
                    Some(raw) => match decode(raw) {
                        None => return self.bad("attribute-value-has-no-raw-ampersand"),
                        Some(d) => {
                            if d != v {
                                return self.bad("attribute-value-is-preserved");
                            }
                        }
                    },
                }
            }
            if !found {
                return self.bad("attribute-is-written");
            }
        }
        // the default namespace the output establishes
        let mut inner_default = default_ns.to_string();
        for (an, raw) in attrs.iter() {
            if an == "xmlns" {
                if let Some(raw) = raw {
                    inner_default = decode(raw).unwrap_or_default();
                }
            }
        }
        if embedded && inner_default != ns {
            return self.bad("mathml-svg-element-is-under-a-default-namespace-declaration");
        }
        let kids: Vec<Node> = self.xot.children(n).collect();
        let has_kids = !kids.is_empty();
        for k in kids {
            if !self.node(k, &inner_default) {
                return false;
            }
        }
        let mut end = String::from("</");
        end.push_str(&tag);
        end.push('>');
        if html && is_void(local) && !has_kids {
            if self.at(&end) {
                return self.bad("void-element-gets-no-end-tag");
            }
            return true;
        }
        if !html && self_closed {
            return true;
        }
        self.ws();
        if !self.lit(&end) {
            return self.bad("element-gets-an-explicit-end-tag");
        }
        true
    }
}

/// true if a processing instruction under `n` has data containing '>'
fn has_gt_pi(xot: &Xot, n: Node) -> bool {
    let mut r = false;
    for d in xot.descendants(n) {
        if let Value::ProcessingInstruction(pi) = xot.value(d) {
            if let Some(data) = pi.data() {
                if data.contains('>') {
                    r = true;
                }
            }
        }
    }
    r
}

fn indentation(xot: &mut Xot, ind: usize) -> Option<Indentation> {
    match ind {
        0 => None,
        1 => Some(Indentation { suppress: vec![] }),
        _ => {
            let d = xot.add_name("DIV");
            Some(Indentation { suppress: vec![d] })
        }
    }
}

/// serialise `top` and run the matcher
fn run(xot: &mut Xot, top: Node, ind: usize, cdata: Vec<NameId>, outer_default: &str) {
    let indentation = indentation(xot, ind);
    let gt = has_gt_pi(xot, top);
    let params = Parameters { indentation, cdata_section_elements: cdata.clone() };
    let r = xot.html5().serialize_string(params, top);
    match r {
        Err(_) => {
            sym::check("serialisation-succeeds", gt);
        }
        Ok(s) => {
            sym::emit_str("html", &s);
            if gt {
                sym::check("processing-instruction-with-gt-is-refused", false);
                return;
            }
            let out: Vec<char> = s.chars().collect();
            let mut m = M { xot, out, pos: 0, pretty: ind != 0, cdata, fail: None };
            let head = "<!doctype html>";
            let mut ok = m.out.len() >= head.len();
            if ok {
                for (i, c) in head.chars().enumerate() {
                    if m.out[i].to_ascii_lowercase() != c {
                        ok = false;
                    }
                }
            }
            sym::check("starts-with-the-html-doctype", ok);
            if !ok {
                return;
            }
            m.pos = head.len();
            let good = m.node(top, outer_default);
            if good {
                m.ws();
                if m.pos != m.out.len() {
                    m.bad("nothing-else-is-written");
                }
            }
            match m.fail {
                None => sym::cover("matched"),
                Some(why) => sym::check(why, false),
            }
        }
    }
}

const NAMES: [&str; 16] = [
    "p", "br", "Br", "bR", "BR", "IMG", "hR", "sCript", "style", "STYLE", "pre", "Span", "foo", "textarea", "TITLE", "Input",
];

/// one element of every kind of HTML name, in every letter case, in no
/// namespace / the XHTML namespace (default or prefixed), holding one text
pub fn h_c19_names() {
    let mut xot = Xot::new();
    let nm = sym::choose("nm", sym::param("NAMES", NAMES.len()));
    let nk = sym::choose("nk", 3);
    let ind = sym::choose("ind", 3);
    let xh = xot.add_namespace(XHTML);
    let ndiv = xot.add_name("div");
    let div = xot.new_element(ndiv);
    let doc = xot.new_document_with_element(div).unwrap();
    let name = if nk == 0 { xot.add_name(NAMES[nm]) } else { xot.add_name_ns(NAMES[nm], xh) };
    let e = xot.new_element(name);
    xot.append(div, e).unwrap();
    if nk == 1 {
        let empty = xot.empty_prefix();
        xot.set_namespace(e, empty, xh);
    } else if nk == 2 {
        let h = xot.add_prefix("h");
        xot.set_namespace(div, h, xh);
    }
    if !is_void(NAMES[nm]) {
        let t = sym::any_string("t", sym::param("SYMT", 1));
        xot.append_text(e, &t).unwrap();
    }
    let after = xot.add_name("b");
    xot.append_element(div, after).unwrap();
    let cdata = if sym::choose("cd", 2) == 1 { vec![name] } else { vec![] };
    let top = if sym::choose("top", 2) == 0 { doc } else { e };
    run(&mut xot, top, ind, cdata, "");
}

/// attribute values
pub fn h_c19_attrs() {
    let mut xot = Xot::new();
    let nk = sym::choose("nk", 2);
    let ind = sym::choose("ind", 2);
    let xh = xot.add_namespace(XHTML);
    let f = xot.add_namespace("urn:f");
    let pf = xot.add_prefix("f");
    let ph = xot.add_prefix("h");
    let local = if sym::choose("el", 2) == 0 { "p" } else { "input" };
    let name = if nk == 0 { xot.add_name(local) } else { xot.add_name_ns(local, xh) };
    let e = xot.new_element(name);
    let doc = xot.new_document_with_element(e).unwrap();
    xot.set_namespace(e, pf, f);
    if nk == 1 {
        xot.set_namespace(e, ph, xh);
    }
    let title = xot.add_name("title");
    let which = sym::choose("extra", 4);
    let n = if which < 2 { sym::param("SYMA", 2) } else { sym::param("SYMA2", 1) };
    let v = sym::any_string("v", n);
    xot.set_attribute(e, title, v);
    match which {
        0 => {}
        1 => {
            // boolean attribute candidates
            let checked = xot.add_name("checked");
            xot.set_attribute(e, checked, "CHECKED");
            let dis = xot.add_name("Disabled");
            xot.set_attribute(e, dis, "disable");
        }
        2 => {
            // attribute in a foreign namespace
            let fa = xot.add_name_ns("a", f);
            let w = sym::any_string("w", 1);
            xot.set_attribute(e, fa, w);
        }
        _ => {
            // attribute in the XHTML namespace
            xot.set_namespace(e, ph, xh);
            let ha = xot.add_name_ns("sel", xh);
            let w = sym::any_string("w", 1);
            xot.set_attribute(e, ha, w);
        }
    }
    run(&mut xot, doc, ind, vec![], "");
}

/// MathML and SVG
pub fn h_c19_embedded() {
    let mut xot = Xot::new();
    let ind = sym::choose("ind", 2);
    let svg = xot.add_namespace(SVG);
    let mml = xot.add_namespace(MATHML);
    let xh = xot.add_namespace(XHTML);
    let (ps, pm, ph) = (xot.add_prefix("s"), xot.add_prefix("m"), xot.add_prefix("h"));
    let ndiv = xot.add_name("div");
    let div = xot.new_element(ndiv);
    let doc = xot.new_document_with_element(div).unwrap();
    xot.set_namespace(div, ps, svg);
    xot.set_namespace(div, pm, mml);
    xot.set_namespace(div, ph, xh);
    let n_svg = xot.add_name_ns("svg", svg);
    let n_circle = xot.add_name_ns("circle", svg);
    let n_rect = xot.add_name_ns("rect", svg);
    let n_math = xot.add_name_ns("math", mml);
    let n_mi = xot.add_name_ns("mi", mml);
    let n_p = xot.add_name_ns("p", xh);
    let shape = sym::choose("shape", 8);
    let e_svg = xot.new_element(n_svg);
    xot.append(div, e_svg).unwrap();
    let circle = xot.new_element(n_circle);
    xot.append(e_svg, circle).unwrap();
    let t = sym::any_string("t", 1);
    let mut cdata = vec![];
    match shape {
        0 => {
            // a sibling in the SVG namespace after the svg element has ended
            let rect = xot.new_element(n_rect);
            xot.append(div, rect).unwrap();
            xot.append_text(rect, &t).unwrap();
        }
        1 => {
            // svg declares the default namespace itself; MathML follows
            let empty = xot.empty_prefix();
            xot.set_namespace(e_svg, empty, svg);
            let math = xot.new_element(n_math);
            xot.append(div, math).unwrap();
            let mi = xot.new_element(n_mi);
            xot.append(math, mi).unwrap();
            xot.append_text(mi, &t).unwrap();
        }
        2 => {
            // MathML inside SVG, and XHTML inside that; text in a requested CDATA section
            let math = xot.new_element(n_math);
            xot.append(circle, math).unwrap();
            let p = xot.new_element(n_p);
            xot.append(math, p).unwrap();
            xot.append_text(math, &t).unwrap();
            cdata.push(n_math);
        }
        3 => {
            // text in SVG, followed by an XHTML element, then MathML
            xot.append_text(e_svg, &t).unwrap();
            let p = xot.new_element(n_p);
            xot.append(div, p).unwrap();
            let math = xot.new_element(n_math);
            xot.append(div, math).unwrap();
        }
        4 => {
            // foreign XML: prefixed element with text, an HTML-named child in the foreign namespace
            let f = xot.add_namespace("urn:f");
            let pf = xot.add_prefix("f");
            xot.set_namespace(div, pf, f);
            let n_x = xot.add_name_ns("x", f);
            let n_br = xot.add_name_ns("br", f);
            let x = xot.new_element(n_x);
            xot.append(div, x).unwrap();
            xot.append_text(x, &t).unwrap();
            let br = xot.new_element(n_br);
            xot.append(x, br).unwrap();
            let s2 = xot.new_element(n_svg);
            xot.append(x, s2).unwrap();
            cdata.push(n_x);
        }
        6 => {
            // XHTML void elements (prefixed / with their own declaration) inside SVG: the scopes they
            // open must be closed again although they have no end tag
            let n_fo = xot.add_name_ns("foreignObject", svg);
            let n_br = xot.add_name_ns("br", xh);
            let n_img = xot.add_name_ns("IMG", xh);
            let fo = xot.new_element(n_fo);
            xot.append(circle, fo).unwrap();
            let br = xot.new_element(n_br);
            xot.append(fo, br).unwrap();
            let img = xot.new_element(n_img);
            let empty = xot.empty_prefix();
            xot.set_namespace(img, empty, xh);
            xot.append(fo, img).unwrap();
            xot.append_text(fo, &t).unwrap();
            let rect = xot.new_element(n_rect);
            xot.append(e_svg, rect).unwrap();
        }
        7 => {
            // a prefixed XHTML void element followed by XHTML and SVG siblings
            let n_br = xot.add_name_ns("Br", xh);
            let br = xot.new_element(n_br);
            xot.append(div, br).unwrap();
            let p = xot.new_element(n_p);
            xot.append(div, p).unwrap();
            xot.append_text(p, &t).unwrap();
            let s2 = xot.new_element(n_svg);
            xot.append(div, s2).unwrap();
        }
        _ => {
            // foreign XML as default namespace, HTML and SVG below it
            let f = xot.add_namespace("urn:f");
            let empty = xot.empty_prefix();
            let n_x = xot.add_name_ns("script", f);
            let x = xot.new_element(n_x);
            xot.set_namespace(x, empty, f);
            xot.append(div, x).unwrap();
            xot.append_text(x, &t).unwrap();
            let p = xot.new_element(n_p);
            xot.append(x, p).unwrap();
            let s2 = xot.new_element(n_svg);
            xot.append(p, s2).unwrap();
            let na = xot.add_name("a");
            let a = xot.new_element(na);
            xot.append(x, a).unwrap();
        }
    }
    let top = match sym::choose("top", 3) {
        0 => doc,
        1 => e_svg,
        _ => circle,
    };
    run(&mut xot, top, ind, cdata, "");
}

/// text directly under a document node, single detached nodes
pub fn h_c19_loose() {
    let mut xot = Xot::new();
    let ind = sym::choose("ind", 2);
    let t = sym::any_string("t", sym::param("SYMT", 2));
    let na = xot.add_name("a");
    let top = match sym::choose("what", 7) {
        0 => {
            // fragment: text, element, text
            let d = xot.new_document();
            xot.append_text(d, &t).unwrap();
            let a = xot.new_element(na);
            xot.append(d, a).unwrap();
            xot.append_text(d, "x").unwrap();
            d
        }
        1 => xot.new_text(&t),
        2 => xot.new_comment("c"),
        3 => xot.new_processing_instruction(na, Some("d")),
        4 => xot.new_attribute_node(na, t.clone()),
        5 => {
            let p = xot.add_prefix("p");
            let n = xot.add_namespace("urn:n");
            xot.new_namespace_node(p, n)
        }
        _ => {
            // text node serialised in place (its parent is an element)
            let a = xot.new_element(na);
            let x = xot.new_text(&t);
            xot.append(a, x).unwrap();
            x
        }
    };
    run(&mut xot, top, ind, vec![], "");
}

/// processing instructions
pub fn h_c19_pi() {
    let mut xot = Xot::new();
    let ind = sym::choose("ind", 2);
    let na = xot.add_name("a");
    let nt = xot.add_name("t");
    let a = xot.new_element(na);
    let doc = xot.new_document_with_element(a).unwrap();
    let n = sym::choose("len", sym::param("PILEN", 3));
    let pi = if n == 0 {
        xot.new_processing_instruction(nt, None)
    } else {
        let d = sym::any_string("d", n);
        xot.new_processing_instruction(nt, Some(&d))
    };
    match sym::choose("where", 3) {
        0 => xot.append(a, pi).unwrap(),
        1 => xot.append(doc, pi).unwrap(),
        _ => xot.insert_before(a, pi).unwrap(),
    }
    let top = if sym::choose("top", 2) == 0 { doc } else { pi };
    run(&mut xot, top, ind, vec![], "");
}
