//! K tier: entity.rs kernels.
use crate::sym;
use xot::verif_hooks as hk;

pub fn register(v: &mut Vec<(&'static str, crate::Harness)>) {
    v.push(("h_c01_attr_roundtrip", h_c01_attr_roundtrip));
}

/// XML 1.0 `Char` production.
pub fn is_xml_char(c: char) -> bool {
    // branch-free on purpose: one symbolic boolean, no path split per range
    let u = c as u32;
    (u == 9) | (u == 10) | (u == 13) | ((u >= 0x20) & (u <= 0xD7FF)) | ((u >= 0xE000) & (u <= 0xFFFD)) | (u >= 0x10000)
}

pub fn xml_string(name: &'static str, max: usize) -> String {
    let n = sym::choose("len", max + 1);
    let s = sym::any_string(name, n);
    for c in s.chars() {
        sym::assume(is_xml_char(c));
    }
    s
}

pub fn h_c01_attr_roundtrip() {
    let s = xml_string("s", sym::param("N", 3));
    let out = hk::serialize_attribute(&s);
    let back = hk::parse_attribute(&out, 0);
    match back {
        Ok(b) => sym::check("attr-roundtrip", b == s),
        Err(_) => sym::check("attr-reparse-accepted", false),
    }
}
