//! Harness crate: every `h_*` function is a root for mirdump/mirsym and is
//! also callable natively for replay (see main.rs).
pub mod sym;
pub mod k_entity;
pub mod t_probe;
pub mod common;
pub mod world;
pub mod t_manip;
pub mod t_traverse;
pub mod t_equal;
pub mod t_model;
pub mod t_nodemap;
pub mod t_names;
pub mod g_roundtrip;
pub mod p_parse;
pub mod t_misc;
pub mod x_ids;
pub mod g_serial;
pub mod h_html;

pub type Harness = fn();
pub fn registry() -> Vec<(&'static str, Harness)> {
    let mut v: Vec<(&'static str, Harness)> = Vec::new();
    k_entity::register(&mut v);
    t_probe::register(&mut v);
    t_manip::register(&mut v);
    t_traverse::register(&mut v);
    t_equal::register(&mut v);
    t_model::register(&mut v);
    t_nodemap::register(&mut v);
    t_names::register(&mut v);
    g_roundtrip::register(&mut v);
    p_parse::register(&mut v);
    t_misc::register(&mut v);
    x_ids::register(&mut v);
    g_serial::register(&mut v);
    h_html::register(&mut v);
    v
}
