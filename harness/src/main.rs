//! Native replay: xh-replay <harness> <model-file>...
//! For each model prints
//!   `REPLAY harness=<h> model=<file> failed=<labels>|none panic=<msg>|none emits=<a;b;...>`
use std::panic;

fn main() {
    let args: Vec<String> = std::env::args().collect();
    if args.len() < 3 {
        eprintln!("usage: xh-replay <harness> <model-file>...");
        std::process::exit(2);
    }
    let name = &args[1];
    let reg = xh::registry();
    let Some((_, f)) = reg.iter().find(|(n, _)| n == name) else {
        eprintln!("unknown harness {}", name);
        std::process::exit(2);
    };
    let f = *f;
    panic::set_hook(Box::new(|_| {}));
    for file in &args[2..] {
        let model = std::fs::read_to_string(file).expect("model file");
        xh::sym::load_model(&model);
        let r = panic::catch_unwind(move || f());
        let mut failed = xh::sym::failures();
        let mut panic_msg = "none".to_string();
        if let Err(e) = r {
            if e.downcast_ref::<xh::sym::AssumeFailed>().is_some() {
                // checks that failed before the violated assumption still count
                // (the solver's model only has to satisfy the path up to the check)
                if failed.last().map(|s| s.as_str()) != Some("ASSUME") {
                    failed.push("ASSUME".to_string());
                }
            } else if let Some(s) = e.downcast_ref::<&str>() {
                panic_msg = s.replace('\n', " ").replace(' ', "_");
            } else if let Some(s) = e.downcast_ref::<String>() {
                panic_msg = s.replace('\n', " ").replace(' ', "_");
            } else {
                panic_msg = "panic".to_string();
            }
        }
        let failed = if failed.is_empty() { "none".to_string() } else { failed.join(",") };
        println!(
            "REPLAY harness={} model={} failed={} panic={} emits={}",
            name,
            file,
            failed,
            panic_msg,
            xh::sym::emits().join(";")
        );
    }
}
