//! C02 / C03 / C17: the parser (xmlparser tokenizer + xot's DocumentBuilder),
//! driven through the public parse entry points, and the reference decoder.
use crate::common::*;
use crate::sym;
use xot::verif_hooks as hk;
use xot::{Node, SpanInfoKey, Xot};

pub fn register(v: &mut Vec<(&'static str, crate::Harness)>) {
    v.push(("h_c02_content_kernel", h_c02_content_kernel));
    v.push(("h_c02_text", h_c02_text));
    v.push(("h_c02_attr", h_c02_attr));
    v.push(("h_c02_names", h_c02_names));
    v.push(("h_c02_fragment", h_c02_fragment));
    v.push(("h_c02_xmlid", h_c02_xmlid));
    v.push(("h_c03_content_kernel", h_c03_content_kernel));
    v.push(("h_c03_tags", h_c03_tags));
    v.push(("h_c03_rejects", h_c03_rejects));
    v.push(("h_c03_total", h_c03_total));
    v.push(("h_c03_bytes", h_c03_bytes));
    v.push(("h_c02_bytes", h_c02_bytes));
    v.push(("h_c17_spellings", h_c17_spellings));
    v.push(("h_c03_fragment_scope", h_c03_fragment_scope));
    v.push(("h_c03_charref_value", h_c03_charref_value));
    v.push(("h_c17_cdata_edges", h_c17_cdata_edges));
    v.push(("h_c17_spans", h_c17_spans));
    v.push(("h_c17_error_spans", h_c17_error_spans));
}

// ---------------------------------------------------------------------------
// reference decoder for character data (XML 1.0 sections 2.11, 3.3.3, 4.1, 4.6)

fn hex_val(c: char) -> Option<u32> {
    let u = c as u32;
    if (u >= 0x30) & (u <= 0x39) {
        Some(u - 0x30)
    } else if (u >= 0x61) & (u <= 0x66) {
        Some(u - 0x61 + 10)
    } else if (u >= 0x41) & (u <= 0x46) {
        Some(u - 0x41 + 10)
    } else {
        None
    }
}

/// Some(decoded) for a well-formed spelling, None when the spelling is not
/// well-formed character data (bad / unterminated reference, reference to a
/// non-Char). `attr`: attribute-value normalisation instead of line ends.
pub fn ref_decode(s: &str, attr: bool) -> Option<String> {
    let cs: Vec<char> = s.chars().collect();
    let mut out = String::new();
    let mut i = 0;
    while i < cs.len() {
        let c = cs[i];
        if c == '\r' {
            if i + 1 < cs.len() && cs[i + 1] == '\n' {
                i += 1;
            }
            out.push(if attr { ' ' } else { '\n' });
        } else if attr && (c == '\t' || c == '\n') {
            out.push(' ');
        } else if c == '&' {
            // find ';'
            let mut j = i + 1;
            while j < cs.len() && cs[j] != ';' {
                j += 1;
            }
            if j >= cs.len() {
                return None;
            }
            let body = &cs[i + 1..j];
            if body.first() == Some(&'#') {
                let (digits, radix) = if body.get(1) == Some(&'x') { (&body[2..], 16u32) } else { (&body[1..], 10u32) };
                if digits.is_empty() {
                    return None;
                }
                let mut v: u32 = 0;
                for d in digits {
                    let dv = hex_val(*d)?;
                    if dv >= radix {
                        return None;
                    }
                    v = v.checked_mul(radix)?.checked_add(dv)?;
                }
                let ch = char::from_u32(v)?;
                if !is_xml_char(ch) {
                    return None;
                }
                out.push(ch);
            } else {
                let mut name = String::new();
                for ch in body {
                    name.push(*ch);
                }
                match name.as_str() {
                    "amp" => out.push('&'),
                    "lt" => out.push('<'),
                    "gt" => out.push('>'),
                    "apos" => out.push('\''),
                    "quot" => out.push('"'),
                    _ => return None,
                }
            }
            i = j;
        } else {
            out.push(c);
        }
        i += 1;
    }
    Some(out)
}

fn sym_string(name: &'static str, lenname: &'static str, max: usize) -> String {
    let n = sym::choose(lenname, max + 1);
    sym::any_string(name, n)
}

/// C02 (kernel): every well-formed spelling decodes to what it denotes.
pub fn h_c02_content_kernel() {
    let s = sym_string("s", "len", sym::param("N", 3));
    let attr = sym::any_bool("attr");
    if let Some(want) = ref_decode(&s, attr) {
        let got = if attr { hk::parse_attribute(&s, 0) } else { hk::parse_text(&s, 0) };
        match got {
            Ok(g) => sym::check("decodes-to-what-the-spelling-denotes", g == want),
            Err(_) => sym::check("well-formed-spelling-accepted", false),
        }
    }
}

/// C03 (kernel): total, and everything that is not a well-formed spelling is rejected.
pub fn h_c03_content_kernel() {
    let s = sym_string("s", "len", sym::param("N", 3));
    let attr = sym::any_bool("attr");
    let base = sym::any_usize("base");
    // offsets handed to the kernel by the parser are positions inside the source text
    sym::assume(base <= (1usize << 40));
    let got = if attr { hk::parse_attribute(&s, base) } else { hk::parse_text(&s, base) };
    if ref_decode(&s, attr).is_none() {
        // known acceptances of malformed references, by role of the offending character
        let cs: Vec<char> = s.chars().collect();
        let mut plus_after_hash = false;
        for k in 0..cs.len() {
            if cs[k] == '#' && ((k + 1 < cs.len() && cs[k + 1] == '+') || (k + 2 < cs.len() && cs[k + 1] == 'x' && cs[k + 2] == '+')) {
                plus_after_hash = true;
            }
        }
        sym::check("malformed-character-data-rejected", got.is_err());
    }
}

// ---------------------------------------------------------------------------
// end to end: pieces of character data inside an element / attribute

/// one piece of a spelling; returns (source text, true if it is a CDATA piece)
fn piece(k: usize, name: &'static str) -> String {
    match k {
        0 => {
            let s = sym::any_string(name, 1);
            for c in s.chars() {
                sym::assume(is_xml_char(c) & (c != '<') & (c != '&'));
            }
            s
        }
        1 => "&amp;".to_string(),
        2 => "&#x3C;".to_string(),
        3 => "\r\n".to_string(),
        4 => "&#13;".to_string(),
        _ => "&quot;".to_string(),
    }
}

pub fn h_c02_text() {
    let mut xot = Xot::new();
    let k1 = sym::choose("k1", 9);
    let k2 = sym::choose("k2", 9);
    // k == 6 / 7: a CDATA section with one symbolic char / that char and LF (line ends are normalised there too, XML 1.0 2.11)
    let mut src = String::from("<a>");
    let mut want = String::new();
    // literal pieces that are adjacent in the source are decoded together (CR LF is one line end)
    let mut literal = String::new();
    for (k, nm) in [(k1, "c1"), (k2, "c2")] {
        if k == 8 {
            // an empty CDATA section: no character data
            want.push_str(&ref_decode(&literal, false).unwrap());
            literal.clear();
            src.push_str("<![CDATA[]]>");
        } else if k >= 6 {
            want.push_str(&ref_decode(&literal, false).unwrap());
            literal.clear();
            let mut s = sym::any_string(nm, 1);
            for c in s.chars() {
                sym::assume(is_xml_char(c));
            }
            if k == 7 {
                // the symbolic char followed by LF (CR LF inside the section is one line end)
                s.push('\n');
            }
            src.push_str("<![CDATA[");
            src.push_str(&s);
            src.push_str("]]>");
            // verbatim except for line ends
            let cs: Vec<char> = s.chars().collect();
            let mut i = 0;
            while i < cs.len() {
                if cs[i] == '\r' {
                    if i + 1 < cs.len() && cs[i + 1] == '\n' {
                        i += 1;
                    }
                    want.push('\n');
                } else {
                    want.push(cs[i]);
                }
                i += 1;
            }
        } else {
            let p = piece(k, nm);
            literal.push_str(&p);
            src.push_str(&p);
        }
    }
    want.push_str(&ref_decode(&literal, false).unwrap());
    src.push_str("</a>");
    sym::emit_str("src", &src);
    match xot.parse(&src) {
        Ok(doc) => {
            let el = xot.document_element(doc).unwrap();
            let kids: Vec<Node> = xot.children(el).collect();
            if want.is_empty() {
                sym::check("no-empty-text-node", kids.is_empty());
            } else {
                sym::check("adjacent-text-and-cdata-merged", kids.len() == 1 && xot.is_text(kids[0]));
            }
            sym::check("text-is-what-the-spelling-denotes", xot.string_value(el) == want);
        }
        Err(_) => sym::check("well-formed-document-accepted", false),
    }
}

pub fn h_c02_attr() {
    let mut xot = Xot::new();
    let x = xot.add_name("x");
    let k1 = sym::choose("k1", 6);
    let k2 = sym::choose("k2", 6);
    let quote = if sym::choose("quote", 2) == 0 { '"' } else { '\'' };
    let p1 = piece(k1, "c1");
    let p2 = piece(k2, "c2");
    for c in p1.chars().chain(p2.chars()) {
        sym::assume(c != quote);
    }
    // the same spellings as the value of a namespace declaration (an attribute, syntactically)
    let as_declaration = sym::choose("decl", 2) == 1;
    let mut src = String::from(if as_declaration { "<p:a  xmlns:p = " } else { "<a  x = " });
    src.push(quote);
    if as_declaration {
        src.push('u');
    }
    src.push_str(&p1);
    src.push_str(&p2);
    src.push(quote);
    src.push_str(" />");
    let mut spelled = p1.clone();
    spelled.push_str(&p2);
    let want = ref_decode(&spelled, true).unwrap();
    match xot.parse(&src) {
        Ok(doc) => {
            let el = xot.document_element(doc).unwrap();
            if as_declaration {
                let mut want_ns = String::from("u");
                want_ns.push_str(&want);
                let (local, ns) = xot.name_ns_str(xot.node_name(el).unwrap());
                sym::check("namespace-name-decoded-like-an-attribute-value", local == "a" && ns == want_ns);
                sym::check("no-attribute", xot.attributes(el).len() == 0);
            } else {
                sym::check("attribute-value-normalised", xot.get_attribute(el, x) == Some(want.as_str()));
                sym::check("one-attribute", xot.attributes(el).len() == 1);
            }
        }
        Err(_) => sym::check("well-formed-document-accepted", false),
    }
}

// namespace layouts as text
fn decl_text(c: usize) -> (&'static str, Vec<(&'static str, &'static str)>) {
    match c {
        0 => ("", vec![]),
        1 => (" xmlns:p=\"urn:a\"", vec![("p", "urn:a")]),
        2 => (" xmlns:p=\"urn:b\"", vec![("p", "urn:b")]),
        3 => (" xmlns=\"urn:a\"", vec![("", "urn:a")]),
        4 => (" xmlns=\"\"", vec![("", "")]),
        5 => (" xmlns:p='urn:a' xmlns:q='urn:a'", vec![("p", "urn:a"), ("q", "urn:a")]),
        6 => (" xmlns:q=\"urn:b\" xmlns=\"urn:a\"", vec![("q", "urn:b"), ("", "urn:a")]),
        _ => (" xmlns:q=\"urn:a\" xmlns:p=\"urn:b\"", vec![("q", "urn:a"), ("p", "urn:b")]),
    }
}

fn resolve(chain: &[Vec<(&'static str, &'static str)>], prefix: &str) -> Option<&'static str> {
    if prefix == "xml" {
        return Some("http://www.w3.org/XML/1998/namespace");
    }
    for decls in chain.iter().rev() {
        for (p, u) in decls.iter().rev() {
            if *p == prefix {
                return Some(u);
            }
        }
    }
    if prefix.is_empty() {
        Some("")
    } else {
        None
    }
}

pub fn h_c02_names() {
    let mut xot = Xot::new();
    let c0 = sym::choose("c0", 8);
    let c1 = sym::choose("c1", 8);
    let ep = ["", "p", "q"][sym::choose("ep", 3)];
    let ap = ["", "p", "xml"][sym::choose("ap", 3)];
    let (d0, l0) = decl_text(c0);
    let (d1, l1) = decl_text(c1);
    let qn = |p: &str, n: &str| if p.is_empty() { n.to_string() } else { format!("{}:{}", p, n) };
    let en = qn(ep, "e");
    // a prefixed attribute may have the local name xmlns: it is an ordinary attribute
    let al = if !ap.is_empty() && sym::choose("al", 2) == 1 { "xmlns" } else { "t" };
    let an = qn(ap, al);
    let src = format!("<r{}><{}{} {}=\"v\"/><{}/></r>", d0, en, d1, an, en);
    let chain = vec![l0.clone(), l1.clone()];
    let e_ns = resolve(&chain, ep);
    let a_ns = if ap.is_empty() { Some("") } else { resolve(&chain, ap) };
    let e2_ns = resolve(&chain[..1], ep);
    let well_formed = e_ns.is_some() && a_ns.is_some() && e2_ns.is_some();
    match xot.parse(&src) {
        Ok(doc) => {
            sym::check("undeclared-prefix-rejected", well_formed);
            if !well_formed {
                return;
            }
            let r = xot.document_element(doc).unwrap();
            let e = xot.first_child(r).unwrap();
            let e2 = xot.next_sibling(e).unwrap();
            let (local, ns) = xot.name_ns_str(xot.node_name(e).unwrap());
            sym::check("element-expanded-name", local == "e" && ns == e_ns.unwrap());
            let (local2, ns2) = xot.name_ns_str(xot.node_name(e2).unwrap());
            sym::check("sibling-expanded-name-scope-ended", local2 == "e" && ns2 == e2_ns.unwrap());
            let attrs: Vec<(String, String)> = xot.attributes(e).keys().map(|k| { let (l, n) = xot.name_ns_str(k); (l.to_string(), n.to_string()) }).collect();
            sym::check("attribute-expanded-name", attrs.len() == 1 && attrs[0].0 == al && attrs[0].1 == a_ns.unwrap());
            let want0: Vec<(String, String)> = l0.iter().map(|(p, u)| (p.to_string(), u.to_string())).collect();
            let want1: Vec<(String, String)> = l1.iter().map(|(p, u)| (p.to_string(), u.to_string())).collect();
            sym::check("declarations-on-the-element-that-wrote-them", decls(&xot, r) == want0 && decls(&xot, e) == want1 && decls(&xot, e2).is_empty());
        }
        Err(_) => sym::check("well-formed-document-accepted", !well_formed),
    }
}

fn fragment_text(k: usize) -> String {
    let s = sym::any_string("f", 1);
    for c in s.chars() {
        sym::assume(is_xml_char(c) & (c != '<') & (c != '&'));
    }
    match k {
        0 => format!("{}<a/>u", s),
        1 => "<a/><b/>".to_string(),
        2 => format!(" <a>{}</a> ", s),
        3 => format!("<!--c--><a x=\"{}\"/>", if s == "\"" { "q".to_string() } else { s }),
        4 => format!("{}<![CDATA[y]]>", s),
        5 => "".to_string(),
        6 => format!("<?pi d?>{}", s),
        _ => format!("<a><b>{}</b></a>tail", s),
    }
}

pub fn h_c02_fragment() {
    let mut xot = Xot::new();
    let k = sym::choose("k", 8);
    let x = fragment_text(k);
    let wrapped = format!("<w>{}</w>", x);
    let f = xot.parse_fragment(&x);
    let d = xot.parse(&wrapped);
    match (f, d) {
        (Ok(fr), Ok(doc)) => {
            let w = xot.document_element(doc).unwrap();
            let a: Vec<Full> = xot.children(fr).map(|c| full(&xot, c)).collect();
            let b: Vec<Full> = xot.children(w).map(|c| full(&xot, c)).collect();
            sym::check("fragment-equals-wrapped-content", a == b);
        }
        (Err(_), Err(_)) => sym::cover("both-rejected"),
        _ => sym::check("fragment-and-wrapped-agree-on-acceptance", false),
    }
}

/// reference xml:id normalisation: strip leading/trailing U+0020, collapse runs
fn ref_norm_id(v: &str) -> String {
    let mut out = String::new();
    let mut pending = false;
    for c in v.chars() {
        if c == ' ' {
            pending = !out.is_empty();
        } else {
            if pending {
                out.push(' ');
            }
            pending = false;
            out.push(c);
        }
    }
    out
}

pub fn h_c02_xmlid() {
    let mut xot = Xot::new();
    // len <= N: the whole value is symbolic; len == N + 1: the template p??q?r (three symbolic chars), so that
    // values with several separate internal runs of spaces are covered
    let nmax = sym::param("N", 3);
    let n = sym::choose("len", nmax + 2);
    let v = if n <= nmax {
        sym::any_string("v", n)
    } else {
        let w = sym::any_string("w", 3);
        let mut it = w.chars();
        let (w0, w1, w2) = (it.next().unwrap(), it.next().unwrap(), it.next().unwrap());
        format!("p{}{}q{}r", w0, w1, w2)
    };
    for c in v.chars() {
        sym::assume(is_xml_char(c) & (c != '<') & (c != '&') & (c != '"') & (c != '\t') & (c != '\n') & (c != '\r'));
    }
    let src = format!("<a xml:id=\"{}\"><b/></a>", v);
    let want = ref_norm_id(&v);
    match xot.parse(&src) {
        Ok(doc) => {
            let el = xot.document_element(doc).unwrap();
            let idn = xot.xml_id_name();
            sym::check("xml-id-space-normalised", xot.get_attribute(el, idn) == Some(want.as_str()));
            sym::check("xml-id-node-found-by-normalised-value", xot.xml_id_node(doc, &want) == Some(el));
        }
        Err(_) => sym::check("well-formed-document-accepted", false),
    }
}

// ---------------------------------------------------------------------------
// C03: tag structure

/// tag pieces: 0 <a> 1 </a> 2 <b> 3 </b> 4 <a/> 5 text 6 comment
fn tag_piece(k: usize, t: &str) -> String {
    match k {
        0 => "<a>".to_string(),
        1 => "</a>".to_string(),
        2 => "<b>".to_string(),
        3 => "</b>".to_string(),
        4 => "<a/>".to_string(),
        5 => t.to_string(),
        _ => "<!--c-->".to_string(),
    }
}

pub fn h_c03_tags() {
    let mut xot = Xot::new();
    let n = sym::param("PIECES", 3);
    let fragment = sym::choose("fragment", 2) == 1;
    let t = sym::any_string("t", 1);
    for c in t.chars() {
        // non-whitespace character data
        // (a leading U+FEFF is a byte order mark, not character data)
        sym::assume(is_xml_char(c) & (c != '<') & (c != '&') & (c != ' ') & (c != '\t') & (c != '\n') & (c != '\r') & (c != '\u{FEFF}'));
    }
    let names = ["k0", "k1", "k2", "k3"];
    let mut src = String::new();
    // reference well-formedness: stack of open tags
    let mut stack: Vec<usize> = Vec::new();
    let mut ok = true;
    let mut roots = 0usize;
    let mut top_text = false;
    let mut stray_close = false;
    for i in 0..n {
        let k = sym::choose(names[i], 7);
        src.push_str(&tag_piece(k, &t));
        match k {
            0 | 2 => {
                if stack.is_empty() {
                    roots += 1;
                }
                stack.push(k);
            }
            1 | 3 => match stack.pop() {
                Some(open) => {
                    if open + 1 != k {
                        ok = false;
                    }
                }
                None => {
                    ok = false;
                    stray_close = true;
                }
            },
            4 => {
                if stack.is_empty() {
                    roots += 1;
                }
            }
            5 => {
                if stack.is_empty() {
                    top_text = true;
                }
            }
            _ => {}
        }
    }
    if !stack.is_empty() {
        ok = false;
    }
    let well_formed = if fragment { ok } else { ok && roots == 1 && !top_text };
    sym::emit_str("src", &src);
    let r = if fragment { xot.parse_fragment(&src) } else { xot.parse(&src) };
    match r {
        Ok(doc) => {
            sym::check("ill-formed-tag-structure-rejected", well_formed);
            if !fragment {
                sym::check("accepted-document-validates", xot.validate_well_formed_document(doc).is_ok());
            }
            // what is accepted serialises and re-parses to the same tree
            if let Ok(s) = xot.to_string(doc) {
                let again = if fragment { xot.parse_fragment(&s) } else { xot.parse(&s) };
                match again {
                    Ok(doc2) => sym::check("accepted-tree-round-trips", full(&xot, doc) == full(&xot, doc2)),
                    Err(_) => sym::check("serialisation-of-accepted-tree-is-accepted", false),
                }
            } else {
                sym::check("accepted-tree-serialises", false);
            }
        }
        Err(_) => sym::check("well-formed-text-accepted", !well_formed),
    }
}

pub fn h_c03_rejects() {
    let mut xot = Xot::new();
    let k = sym::choose("k", 17);
    let v = sym::any_string("v", 1);
    for c in v.chars() {
        sym::assume(is_xml_char(c) & (c != '<') & (c != '&') & (c != '"'));
    }
    let src = match k {
        0 => format!("<a x=\"{}\" x=\"2\"/>", v),
        1 => format!("<a xmlns:p=\"u\" xmlns:q=\"u\" p:x=\"{}\" q:x=\"2\"/>", v),
        2 => format!("<a xmlns:p=\"{}\" xmlns:p=\"v\"/>", v),
        3 => "<p:a/>".to_string(),
        4 => "<a p:x=\"1\"/>".to_string(),
        5 => format!("<a><b xml:id=\"{}\"/><c xml:id=\"{}\"/></a>", v, v),
        6 => "<!DOCTYPE a><a/>".to_string(),
        7 => "<?xml version=\"1.1\"?><a/>".to_string(),
        8 => format!("<a>{}<</a>", v),
        9 => "<a>&#0;</a>".to_string(),
        10 => "<a xmlns:p=\"u\"><p:b></p:c></a>".to_string(),
        // a prefix bound to the empty namespace name (itself a namespace error) gives p:x and x one expanded name
        12 => format!("<e xmlns:p=\"\" p:x=\"{}\" x=\"2\"/>", v),
        // a sign is not a digit, in decimal and in hexadecimal references, in text and in attribute values
        13 => format!("<a>{}&#x+41;</a>", v),
        14 => format!("<a>{}&#+65;</a>", v),
        15 => format!("<a x=\"{}&#x-41;\"/>", v),
        16 => format!("<a x=\"{}&#x+41;\"/>", v),
        _ => "<a xmlns:p=\"u\" xmlns:q=\"u\"><p:b></q:b></a>".to_string(),
    };
    sym::class("KF-C03-close-tag-matched-by-expanded-name", k == 11);
    match xot.parse(&src) {
        Ok(_) => {
            // an xml:id that is only spaces / equal after normalisation is a duplicate as well
            sym::check("ill-formed-document-rejected", false);
        }
        Err(_) => sym::cover("rejected"),
    }
}

/// declarations of a top-level element of a fragment end with that element
pub fn h_c03_fragment_scope() {
    let mut xot = Xot::new();
    let c = 1 + sym::choose("c", 7);
    let (d, _l) = decl_text(c);
    let ep = ["", "p", "q"][sym::choose("ep", 3)];
    let shape = sym::choose("shape", 3);
    let qn = if ep.is_empty() { "b".to_string() } else { format!("{}:b", ep) };
    let src = match shape {
        0 => format!("<a{}/><{}/>", d, qn),
        1 => format!("<a{}><x/></a><{}/>", d, qn),
        _ => format!("<a{}></a>t<{} y=\"1\"/>", d, qn),
    };
    match xot.parse_fragment(&src) {
        Ok(doc) => {
            sym::check("prefix-declared-on-an-earlier-sibling-is-not-in-scope", ep.is_empty());
            if ep.is_empty() {
                let b = xot.children(doc).filter(|n| xot.is_element(*n)).nth(1).unwrap();
                let (local, ns) = xot.name_ns_str(xot.node_name(b).unwrap());
                sym::check("default-namespace-of-an-earlier-sibling-is-not-in-scope", local == "b" && ns.is_empty());
            }
        }
        Err(_) => sym::check("well-formed-fragment-accepted", !ep.is_empty()),
    }
}

/// totality on short arbitrary ASCII-ish strings (both entry points)
pub fn h_c03_total() {
    let mut xot = Xot::new();
    let n = sym::choose("len", sym::param("N", 3) + 1);
    let s = sym::any_string("s", n);
    for c in s.chars() {
        sym::assume((c as u32) < 0x80);
    }
    let pre = ["", "<a>", "<a ", "<a x='", "<!--", "<?p ", "<![CDATA[", "&"][sym::choose("pre", 8)];
    let src = format!("{}{}", pre, s);
    let fragment = sym::choose("fragment", 2) == 1;
    let r = if fragment { xot.parse_fragment(&src) } else { xot.parse(&src) };
    if let Ok(doc) = r {
        if !fragment {
            sym::check("accepted-document-validates", xot.validate_well_formed_document(doc).is_ok());
        }
    }
    sym::cover("returned");
}

/// `parse_bytes` on every short ASCII byte string: returns (no panic edge) and agrees with `parse` of the
/// same text.  xot::encoding + xhtmlchardet's BOM / length logic + encoding_rs label lookup are the real
/// code; `Encoding::decode` is a stub (identity on ASCII - the harness assumes every byte < 0x80).
pub fn h_c03_bytes() {
    let mut xot = Xot::new();
    let n = sym::choose("len", sym::param("NB", 4) + 1);
    const NAMES: [&str; 6] = ["b0", "b1", "b2", "b3", "b4", "b5"];
    let mut v: Vec<u8> = Vec::new();
    let mut s = String::new();
    for name in NAMES.iter().take(n) {
        let b = sym::any_u8(name);
        sym::assume(b < 0x80);
        v.push(b);
        s.push(b as char);
    }
    // (sharding aid only: the three classes of the first byte partition the inputs)
    let cls = sym::choose("cls", 3);
    if n == 0 {
        sym::assume(cls == 0);
    } else {
        let b0 = v[0];
        let ws = (b0 == b' ') | (b0 == b'\t') | (b0 == b'\n') | (b0 == b'\r');
        match cls {
            0 => sym::assume(b0 == b'<'),
            1 => sym::assume(ws),
            _ => sym::assume((b0 != b'<') & !ws),
        }
    }
    let r = xot.parse_bytes(&v);
    sym::emit_u64("accepted", r.is_ok() as u64);
    sym::cover("returned");
    let mut xot2 = Xot::new();
    let r2 = xot2.parse(&s);
    sym::check("parse-bytes-accepts-what-parse-accepts", r.is_ok() == r2.is_ok());
    if let (Ok(d), Ok(d2)) = (r, r2) {
        sym::check("parse-bytes-same-document", xot.to_string(d).ok() == xot2.to_string(d2).ok());
        sym::cover("parsed");
    }
}

/// windows-1252 (what encoding_rs uses for the labels iso-8859-1, us-ascii and windows-1252) of one byte
fn ref_cp1252(b: u8) -> char {
    const HI: [u32; 32] = [
        0x20AC, 0x81, 0x201A, 0x0192, 0x201E, 0x2026, 0x2020, 0x2021, 0x02C6, 0x2030, 0x0160, 0x2039, 0x0152, 0x8D, 0x017D, 0x8F, 0x90, 0x2018, 0x2019, 0x201C,
        0x201D, 0x2022, 0x2013, 0x2014, 0x02DC, 0x2122, 0x0161, 0x203A, 0x0153, 0x9D, 0x017E, 0x0178,
    ];
    if (0x80..0xA0).contains(&b) {
        char::from_u32(HI[(b - 0x80) as usize]).unwrap()
    } else {
        b as char
    }
}

/// `parse_bytes` honours the declared encoding: a document with an XML declaration naming one of 5 labels (or
/// without declaration), whose text is one of 5 non-ASCII byte sequences followed by an arbitrary ASCII char,
/// yields the text that the declared encoding denotes. xot::encoding, xhtmlchardet::detect and encoding_rs'
/// label lookup are the real code; `Encoding::decode` is a value-level stub (ASCII identity, windows-1252 table,
/// UTF-8 for concrete bytes).
pub fn h_c02_bytes() {
    let mut xot = Xot::new();
    let label = sym::choose("label", 6);
    let decl: &[u8] = match label {
        0 => b"",
        1 => b"<?xml version=\"1.0\" encoding=\"UTF-8\"?>",
        2 => b"<?xml version=\"1.0\" encoding=\"ISO-8859-1\"?>",
        3 => b"<?xml version='1.0' encoding='windows-1252'?>",
        4 => b"<?xml version=\"1.0\" encoding=\"us-ascii\"?>",
        _ => b"<?xml version=\"1.0\" encoding=\"iso-8859-1\" standalone=\"yes\"?>",
    };
    let utf8 = label <= 1;
    let body = sym::choose("body", 5);
    let hi: &[u8] = if utf8 {
        match body {
            0 => b"\xc3\xa9",
            1 => b"\xe2\x82\xac",
            2 => b"\xf0\x9f\x98\x80",
            3 => b"\xc2\xa0",
            _ => b"k",
        }
    } else {
        match body {
            0 => b"\xc3\xa9",
            1 => b"\xe9",
            2 => b"\x80",
            3 => b"\xc2\xa3\x9f",
            _ => b"k",
        }
    };
    let c = sym::any_u8("c");
    sym::assume((c < 0x80) & (c >= 0x20) & (c != b'<') & (c != b'&'));
    let mut v: Vec<u8> = Vec::new();
    v.extend_from_slice(decl);
    v.extend_from_slice(b"<a>");
    v.extend_from_slice(hi);
    v.push(c);
    v.extend_from_slice(b"</a>");
    let mut want = String::new();
    if utf8 {
        want.push_str(std::str::from_utf8(hi).unwrap());
    } else {
        for b in hi {
            want.push(ref_cp1252(*b));
        }
    }
    want.push(c as char);
    match xot.parse_bytes(&v) {
        Ok(doc) => {
            let el = xot.document_element(doc).unwrap();
            // observable for the differential validation of the decode stub against the real encoding_rs
            sym::emit_str("decoded", &xot.string_value(el));
            sym::check("bytes-decoded-in-the-declared-encoding", xot.string_value(el) == want);
        }
        Err(_) => sym::check("well-formed-document-accepted", false),
    }
}

// ---------------------------------------------------------------------------
// C17: spans

pub fn h_c17_spans() {
    let mut xot = Xot::new();
    // only two of the six contents are symbolic on a path (the others are the letter k):
    // every symbolic character multiplies the tokenizer's paths
    let group = sym::choose("group", 3);
    let one = |nm: &'static str, g: usize| {
        if g != group {
            return "k".to_string();
        }
        let s = sym::any_string(nm, 1);
        for c in s.chars() {
            sym::assume(is_xml_char(c) & (c != '<') & (c != '&') & (c != '"') & (c != '-') & (c != '?') & (c != ']') & (c != '\r'));
        }
        s
    };
    // a leading comment of symbolic length shifts every offset
    let padn = sym::choose("pad", 3);
    let pad = "z".repeat(padn);
    let (v, t, c, d, e, f) = (one("v", 0), one("t", 0), one("c", 1), one("d", 1), one("e", 2), one("f", 2));
    // leading white space of a PI's content is not part of the content
    for ch in d.chars() {
        sym::assume((ch != ' ') & (ch != '\t') & (ch != '\n'));
    }
    let fragment = sym::choose("fragment", 2) == 1;
    // white space before the first markup (allowed in documents and fragments alike)
    let lead = ["", "\n "][sym::choose("lead", 2)];
    let src = format!(
        "{}<!--{}--><p:a xmlns:p=\"u\" x=\"{}\" p:y='w'>{}<!--{}--><?pi {}?>g<![CDATA[{}]]>{}<b/></p:a>",
        lead, pad, v, t, c, d, e, f
    );
    let r = if fragment { xot.parse_fragment_with_span_info(&src) } else { xot.parse_with_span_info(&src) };
    let (doc, si) = match r {
        Ok(x) => x,
        Err(_) => {
            sym::check("well-formed-document-accepted", false);
            return;
        }
    };
    let slice = |k: SpanInfoKey| -> Option<String> {
        si.get(k).and_then(|sp| if sp.start <= sp.end && sp.end <= src.len() { src.get(sp.range()).map(|s| s.to_string()) } else { None })
    };
    let el = xot.children(doc).find(|n| xot.is_element(*n)).unwrap();
    sym::check("element-start-span", slice(SpanInfoKey::ElementStart(el)).as_deref() == Some("p:a"));
    sym::check("element-end-span", slice(SpanInfoKey::ElementEnd(el)).as_deref() == Some("</p:a>"));
    let x = xot.add_name("x");
    let u = xot.add_namespace("u");
    let y = xot.add_name_ns("y", u);
    sym::check("attribute-name-span", slice(SpanInfoKey::AttributeName(el, x)).as_deref() == Some("x"));
    sym::check("attribute-value-span", slice(SpanInfoKey::AttributeValue(el, x)) == Some(v.clone()));
    sym::check("prefixed-attribute-name-span", slice(SpanInfoKey::AttributeName(el, y)).as_deref() == Some("p:y"));
    sym::check("prefixed-attribute-value-span", slice(SpanInfoKey::AttributeValue(el, y)).as_deref() == Some("w"));
    let kids: Vec<Node> = xot.children(el).collect();
    // t, comment, pi, merged text (g + cdata e + f), b
    sym::check("child-count", kids.len() == 5);
    if kids.len() == 5 {
        sym::check("text-span", slice(SpanInfoKey::Text(kids[0])) == Some(t.clone()));
        sym::check("comment-span", slice(SpanInfoKey::Comment(kids[1])) == Some(c.clone()));
        sym::check("pi-target-span", slice(SpanInfoKey::PiTarget(kids[2])).as_deref() == Some("pi"));
        sym::check("pi-content-span", slice(SpanInfoKey::PiContent(kids[2])) == Some(d.clone()));
        let merged = format!("g<![CDATA[{}]]>{}", e, f);
        // from the first to the last merged part: the run starts at 'g' and ends after f
        let got = slice(SpanInfoKey::Text(kids[3]));
        sym::check("merged-text-span-start-to-end", got.as_deref() == Some(merged.as_str()));
        sym::check("empty-element-start-span", slice(SpanInfoKey::ElementStart(kids[4])).as_deref() == Some("b"));
        sym::check("empty-element-end-span", slice(SpanInfoKey::ElementEnd(kids[4])).as_deref() == Some("/>"));
        sym::check("decoded-slice-is-the-value", xot.text_str(kids[0]) == Some(t.as_str()));
    }
}

/// spans of attribute values and text whose spelling is longer or shorter than the decoded value
/// (entity, character reference, CR LF): the span covers the raw spelling, the node holds the decoded value
pub fn h_c17_spellings() {
    let mut xot = Xot::new();
    const RAW: [&str; 5] = ["", "&amp;z", "&#x41;", "\r\nk", "&lt;&#10;"];
    const DEC_ATTR: [&str; 5] = ["", "&z", "A", " k", "<\n"];
    const DEC_TEXT: [&str; 5] = ["", "&z", "A", "\nk", "<\n"];
    let sv = sym::choose("sv", 5);
    let stx = sym::choose("st", 5);
    let before = sym::choose("before", 2) == 1;
    let one = |nm: &'static str| {
        let s = sym::any_string(nm, 1);
        for c in s.chars() {
            sym::assume(is_xml_char(c) & (c != '<') & (c != '&') & (c != '"') & (c != ']') & (c != '\r') & (c != '\t') & (c != '\n'));
        }
        s
    };
    let (v, t) = (one("v"), one("t"));
    let (raw_v, dec_v) = if before { (format!("{}{}", RAW[sv], v), format!("{}{}", DEC_ATTR[sv], v)) } else { (format!("{}{}", v, RAW[sv]), format!("{}{}", v, DEC_ATTR[sv])) };
    let (raw_t, dec_t) = if before { (format!("{}{}", RAW[stx], t), format!("{}{}", DEC_TEXT[stx], t)) } else { (format!("{}{}", t, RAW[stx]), format!("{}{}", t, DEC_TEXT[stx])) };
    let pad = ["", "\n"][sym::choose("pad", 2)];
    let src = format!("{}<a w='1' x=\"{}\" y='2'>{}<b/>tail</a>", pad, raw_v, raw_t);
    let fragment = sym::choose("fragment", 2) == 1;
    let r = if fragment { xot.parse_fragment_with_span_info(&src) } else { xot.parse_with_span_info(&src) };
    let (doc, si) = match r {
        Ok(x) => x,
        Err(_) => {
            sym::check("well-formed-document-accepted", false);
            return;
        }
    };
    let slice = |k: SpanInfoKey| -> Option<String> {
        si.get(k).and_then(|sp| if sp.start <= sp.end && sp.end <= src.len() { src.get(sp.range()).map(|s| s.to_string()) } else { None })
    };
    let el = xot.children(doc).find(|n| xot.is_element(*n)).unwrap();
    let (w, x, y) = (xot.add_name("w"), xot.add_name("x"), xot.add_name("y"));
    sym::check("attribute-value-span-is-the-raw-spelling", slice(SpanInfoKey::AttributeValue(el, x)) == Some(raw_v.clone()));
    sym::check("attribute-value-decoded", xot.get_attribute(el, x) == Some(dec_v.as_str()));
    sym::check("attribute-name-span", slice(SpanInfoKey::AttributeName(el, x)).as_deref() == Some("x"));
    sym::check("next-attribute-value-span", slice(SpanInfoKey::AttributeValue(el, y)).as_deref() == Some("2"));
    sym::check("previous-attribute-value-span", slice(SpanInfoKey::AttributeValue(el, w)).as_deref() == Some("1"));
    let kids: Vec<Node> = xot.children(el).collect();
    sym::check("child-count", kids.len() == 3);
    if kids.len() == 3 {
        sym::check("text-span-is-the-raw-spelling", slice(SpanInfoKey::Text(kids[0])) == Some(raw_t.clone()));
        sym::check("text-decoded", xot.text_str(kids[0]) == Some(dec_t.as_str()));
        sym::check("empty-element-end-span", slice(SpanInfoKey::ElementEnd(kids[1])).as_deref() == Some("/>"));
        sym::check("tail-text-span", slice(SpanInfoKey::Text(kids[2])).as_deref() == Some("tail"));
        sym::check("element-end-span", slice(SpanInfoKey::ElementEnd(el)).as_deref() == Some("</a>"));
    }
}

pub fn h_c17_error_spans() {
    let mut xot = Xot::new();
    let k = sym::choose("k", 11);
    let padn = sym::choose("pad", 3);
    let pad = " ".repeat(padn);
    let v = sym::any_string("v", 1);
    for c in v.chars() {
        sym::assume(is_xml_char(c) & (c != '<') & (c != '&') & (c != '"') & (c != ';'));
    }
    let src = match k {
        0 => format!("<a>{}&{};</a>", pad, v),
        1 => format!("<a>{}&{}</a>", pad, v),
        2 => format!("<a x=\"1\"{} x=\"{}\"/>", pad, v),
        3 => format!("<a>{}<p:b/></a>", pad),
        4 => format!("<a>{}<b></a>", pad),
        5 => format!("<a/>{}<b/>", pad),
        6 => format!("{}{}<a/>", v, pad),
        7 => format!("<a>{}</b>", pad),
        // a reference that is not at the start of its text run / attribute value
        9 => format!("<a>some leading text {}{}&#0;</a>", v, pad),
        10 => format!("<a x=\"some leading text {}{}&#xFFFE;\"/>", v, pad),
        _ => format!("<a><b xml:id=\"i\"/>{}<c xml:id=\"i\"/></a>", pad),
    };
    let fragment = sym::choose("fragment", 2) == 1;
    let r = if fragment { xot.parse_fragment_with_span_info(&src).map(|_| ()) } else { xot.parse_with_span_info(&src).map(|_| ()) };
    if let Err(e) = r {
        let sp = e.span();
        sym::check("error-span-inside-source", sp.start <= sp.end && sp.end <= src.len());
        sym::check("error-span-on-char-boundaries", src.is_char_boundary(sp.start) && src.is_char_boundary(sp.end));
    }
}

/// a character reference whose digits are symbolic: accepted exactly when the
/// value is an XML Char, and then it denotes that character (text and attribute value)
pub fn h_c03_charref_value() {
    let mut xot = Xot::new();
    let hex = sym::choose("hex", 2) == 1;
    let radix: u32 = if hex { 16 } else { 10 };
    let n = 1 + sym::choose("digits", sym::param("DIGITS", 5));
    let upper = hex && sym::choose("upper", 2) == 1;
    let names = ["d0", "d1", "d2", "d3", "d4", "d5", "d6", "d7"];
    let mut digits = String::new();
    let mut value: u32 = 0;
    for name in names.iter().take(n) {
        let d = sym::any_u32(name);
        sym::assume(d < radix);
        let c = if d < 10 {
            48 + d
        } else if upper {
            55 + d
        } else {
            87 + d
        };
        digits.push(char::from_u32(c).unwrap());
        value = value * radix + d;
    }
    let v = value;
    let xml_char = (v == 9) | (v == 10) | (v == 13) | ((v >= 0x20) & (v <= 0xD7FF)) | ((v >= 0xE000) & (v <= 0xFFFD)) | ((v >= 0x10000) & (v <= 0x10FFFF));
    let reference = if hex { format!("&#x{};", digits) } else { format!("&#{};", digits) };
    let in_attr = sym::choose("where", 2) == 1;
    let src = if in_attr { format!("<a t=\"{}\"/>", reference) } else { format!("<a>{}</a>", reference) };
    match xot.parse(&src) {
        Ok(doc) => {
            sym::check("reference-outside-xml-char-rejected", xml_char);
            if !xml_char {
                return;
            }
            let el = xot.document_element(doc).unwrap();
            let mut want = String::new();
            want.push(char::from_u32(v).unwrap());
            if in_attr {
                let t = xot.add_name("t");
                sym::check("reference-denotes-its-character", xot.get_attribute(el, t) == Some(want.as_str()));
            } else {
                sym::check("reference-denotes-its-character", xot.text_content_str(el) == Some(want.as_str()));
            }
        }
        Err(_) => sym::check("reference-to-xml-char-accepted", !xml_char),
    }
}

/// text nodes made of CDATA sections at the edges of the run (CDATA content may be empty)
pub fn h_c17_cdata_edges() {
    let mut xot = Xot::new();
    let k = sym::choose("k", 4);
    let n = sym::choose("elen", 2);
    let e = sym::any_string("e", n);
    for c in e.chars() {
        sym::assume(is_xml_char(c) & (c != ']') & (c != '\r'));
    }
    let fragment = sym::choose("fragment", 2) == 1;
    let (src, want_slice, want_text) = match k {
        0 => (format!("<a><![CDATA[{}]]></a>", e), e.clone(), e.clone()),
        1 => (format!("<a>foo<![CDATA[{}]]></a>", e), format!("foo<![CDATA[{}", e), format!("foo{}", e)),
        2 => (format!("<a><![CDATA[{}]]>foo</a>", e), format!("{}]]>foo", e), format!("{}foo", e)),
        _ => (format!("<a><![CDATA[{}]]><![CDATA[x]]></a>", e), format!("{}]]><![CDATA[x", e), format!("{}x", e)),
    };
    let r = if fragment { xot.parse_fragment_with_span_info(&src) } else { xot.parse_with_span_info(&src) };
    let (doc, si) = match r {
        Ok(x) => x,
        Err(_) => {
            sym::check("well-formed-document-accepted", false);
            return;
        }
    };
    let el = xot.children(doc).find(|n| xot.is_element(*n)).unwrap();
    let kids: Vec<Node> = xot.children(el).collect();
    // an empty CDATA section alone denotes no character data: no (empty) text node; everything else one text node
    if want_text.is_empty() {
        sym::check("no-empty-text-node", kids.is_empty());
        return;
    }
    if kids.is_empty() {
        sym::check("text-node-created", false);
        return;
    }
    sym::check("one-merged-text-node", kids.len() == 1 && xot.text_str(kids[0]) == Some(want_text.as_str()));
    match si.get(SpanInfoKey::Text(kids[0])) {
        Some(sp) => {
            sym::check("text-span-inside-source", sp.start <= sp.end && sp.end <= src.len());
            if sp.start <= sp.end && sp.end <= src.len() {
                // a leading empty CDATA section contributes no character: the property does not say whether it is a
                // "merged part", so the run may start at it or after it (both slices decode to the node's value)
                let got = src.get(sp.range());
                // (a run that starts with a CDATA section starts at the section's content, as in the first template)
                let alt = if e.is_empty() && want_slice.starts_with("]]>") {
                    let rest = &want_slice[3..];
                    Some(rest.strip_prefix("<![CDATA[").unwrap_or(rest))
                } else {
                    None
                };
                sym::check("text-span-from-first-to-last-part", got == Some(want_slice.as_str()) || (alt.is_some() && got == alt));
            }
        }
        None => sym::check("every-text-node-has-a-span", false),
    }
}
