//! Symbolic-input intrinsics.
//!
//! Under `mirsym` every function in this module is *summarised by name*
//! (its body is never executed): `any_*` return fresh solver variables,
//! `assume`/`check` add to / query the path condition.  Compiled natively
//! (replay), the same functions read the concrete model that the solver
//! produced, so a harness is its own replay program.
use std::cell::RefCell;

thread_local! {
    static MODEL: RefCell<Vec<(String, u64)>> = RefCell::new(Vec::new());
    static FAILED: RefCell<Vec<String>> = RefCell::new(Vec::new());
    static EMITS: RefCell<Vec<String>> = RefCell::new(Vec::new());
}

pub struct AssumeFailed;

/// Load a model: lines `name=value`.
pub fn load_model(text: &str) {
    MODEL.with(|m| {
        let mut m = m.borrow_mut();
        m.clear();
        for line in text.lines() {
            if let Some((k, v)) = line.split_once('=') {
                if let Ok(v) = v.trim().parse::<u64>() {
                    m.push((k.trim().to_string(), v));
                }
            }
        }
    });
    FAILED.with(|f| f.borrow_mut().clear());
    EMITS.with(|f| f.borrow_mut().clear());
}

pub fn failures() -> Vec<String> {
    FAILED.with(|f| f.borrow().clone())
}

fn lookup(name: &str) -> u64 {
    MODEL.with(|m| {
        m.borrow()
            .iter()
            .find(|(k, _)| k == name)
            .map(|(_, v)| *v)
            .unwrap_or(0)
    })
}

#[inline(never)]
pub fn any_u64(name: &'static str) -> u64 {
    lookup(name)
}
#[inline(never)]
pub fn any_usize(name: &'static str) -> usize {
    lookup(name) as usize
}
#[inline(never)]
pub fn any_u32(name: &'static str) -> u32 {
    lookup(name) as u32
}
#[inline(never)]
pub fn any_u8(name: &'static str) -> u8 {
    lookup(name) as u8
}
#[inline(never)]
pub fn any_bool(name: &'static str) -> bool {
    lookup(name) != 0
}
/// Any `char` (every Unicode scalar value).
#[inline(never)]
pub fn any_char(name: &'static str) -> char {
    char::from_u32(lookup(name) as u32).unwrap_or('\u{fffd}')
}
/// A string of exactly `len` arbitrary chars named `name.0`, `name.1`, ...
/// (`len` must be concrete on the path).
#[inline(never)]
pub fn any_string(name: &'static str, len: usize) -> String {
    let mut s = String::new();
    for i in 0..len {
        let k = format!("{}.{}", name, i);
        s.push(char::from_u32(lookup(&k) as u32).unwrap_or('\u{fffd}'));
    }
    s
}
/// A value in `0..n`, *concretised*: the engine forks into one path per
/// feasible value (used for lengths, node choices, operation choices).
#[inline(never)]
pub fn choose(name: &'static str, n: usize) -> usize {
    let v = lookup(name) as usize;
    if n == 0 {
        0
    } else {
        v % n
    }
}

/// A bound / configuration parameter (concrete under mirsym: given with
/// `--param name=value`; natively read from the model as `param.<name>`).
#[inline(never)]
pub fn param(name: &'static str, default: usize) -> usize {
    let k = format!("param.{}", name);
    MODEL.with(|m| {
        m.borrow()
            .iter()
            .find(|(kk, _)| *kk == k)
            .map(|(_, v)| *v as usize)
            .unwrap_or(default)
    })
}

/// Observable trace for differential validation of the interpreter.
#[inline(never)]
pub fn emit_str(label: &'static str, v: &str) {
    let esc: String = v.chars().map(|c| format!("{:x}.", c as u32)).collect();
    EMITS.with(|e| e.borrow_mut().push(format!("{}={}", label, esc)));
}
#[inline(never)]
pub fn emit_u64(label: &'static str, v: u64) {
    EMITS.with(|e| e.borrow_mut().push(format!("{}=#{}", label, v)));
}
pub fn emits() -> Vec<String> {
    EMITS.with(|e| e.borrow().clone())
}

/// Restrict the inputs. Natively: a violated assumption means the model is
/// not a counterexample; the replay reports that.
#[inline(never)]
pub fn assume(c: bool) {
    if !c {
        FAILED.with(|f| f.borrow_mut().push("ASSUME".to_string()));
        std::panic::panic_any(AssumeFailed);
    }
}

/// The property assertion. Under mirsym: the solver is asked whether `!c`
/// is satisfiable under the path condition.  Natively: record a failure.
#[inline(never)]
pub fn check(label: &'static str, c: bool) {
    if !c {
        FAILED.with(|f| f.borrow_mut().push(label.to_string()));
    }
}

/// Reachability witness: under mirsym counts the paths that reach it.
#[inline(never)]
pub fn cover(_label: &'static str) {}

/// Membership of an input class (known finding): under mirsym, records the
/// label in the path's class set when `c` is satisfiable; no-op natively.
#[inline(never)]
pub fn class(_label: &'static str, _c: bool) {}
