//! C13: deep_equal and its variants against canonical-form equality.
use crate::common::*;
use crate::sym;
use xot::{NameId, Node, Xot};

pub fn register(v: &mut Vec<(&'static str, crate::Harness)>) {
    v.push(("h_c13_deep_equal", h_c13_deep_equal));
    v.push(("h_c13_shallow", h_c13_shallow));
    v.push(("h_c13_leaves", h_c13_leaves));
}

struct Names {
    a: NameId,
    b: NameId,
    a_ns: NameId,
    x: NameId,
    y: NameId,
    x_ns: NameId,
    t: NameId,
}

fn names(xot: &mut Xot) -> Names {
    let ns = xot.add_namespace("urn:1");
    Names {
        a: xot.add_name("a"),
        b: xot.add_name("b"),
        a_ns: xot.add_name_ns("a", ns),
        x: xot.add_name("x"),
        y: xot.add_name("y"),
        x_ns: xot.add_name_ns("x", ns),
        t: xot.add_name("t"),
    }
}

fn one(name: &'static str) -> String {
    let s = sym::any_string(name, 1);
    for c in s.chars() {
        sym::assume(is_xml_char(c));
    }
    s
}

/// Base subtree number `shape`, text-like contents from the symbolic strings.
/// variant > 0 changes exactly one feature.
fn build(xot: &mut Xot, nm: &Names, shape: usize, variant: usize, s: [&str; 4]) -> Node {
    let name = match variant {
        1 => nm.b,
        2 => nm.a_ns,
        _ => nm.a,
    };
    let el = xot.new_element(name);
    // attributes
    if variant == 5 {
        // attribute order swapped
        xot.set_attribute(el, nm.y, s[1]);
        xot.set_attribute(el, nm.x, s[0]);
    } else {
        xot.set_attribute(el, if variant == 3 { nm.x_ns } else { nm.x }, s[0]);
        if variant != 12 {
            xot.set_attribute(el, nm.y, s[1]);
        }
    }
    if variant == 4 {
        xot.set_attribute(el, nm.t, "extra");
    }
    if variant == 6 {
        // prefix / declaration only
        let p = xot.add_prefix("p");
        let ns = xot.add_namespace("urn:1");
        xot.set_namespace(el, p, ns);
    }
    // children
    let mut kids: Vec<Node> = Vec::new();
    match shape {
        0 => {
            kids.push(xot.new_text(s[2]));
        }
        1 => {
            kids.push(xot.new_comment(s[2]));
            kids.push(xot.new_element(nm.b));
        }
        2 => {
            let inner = xot.new_element(nm.b);
            let t = xot.new_text(s[2]);
            xot.append(inner, t).unwrap();
            kids.push(inner);
            kids.push(xot.new_processing_instruction(nm.t, Some(s[3])));
        }
        _ => {
            kids.push(xot.new_element(nm.b));
            kids.push(xot.new_text(s[2]));
            kids.push(xot.new_element(nm.a));
        }
    }
    match variant {
        7 => {
            // extra trailing comment
            kids.push(xot.new_comment("extra"));
        }
        8 => {
            // child order reversed
            kids.reverse();
        }
        9 => {
            // extra element child at the end
            kids.push(xot.new_element(nm.t));
        }
        10 => {
            // first child replaced by a PI
            kids[0] = xot.new_processing_instruction(nm.t, None);
        }
        11 => {
            // drop last child
            kids.pop();
        }
        _ => {}
    }
    for k in kids {
        xot.append(el, k).unwrap();
    }
    el
}

pub const VARIANTS: usize = 13;

fn strip(c: &Canon) -> Canon {
    // drop comments and PIs below the compared node
    match c {
        Canon::Doc(ch) => Canon::Doc(ch.iter().filter(|x| !matches!(x, Canon::Comment(_) | Canon::Pi(_, _))).map(strip).collect()),
        Canon::El { name, attrs, children } => Canon::El {
            name: name.clone(),
            attrs: attrs.clone(),
            children: children.iter().filter(|x| !matches!(x, Canon::Comment(_) | Canon::Pi(_, _))).map(strip).collect(),
        },
        other => other.clone(),
    }
}

fn texts(c: &Canon, out: &mut String) {
    match c {
        Canon::Doc(ch) => ch.iter().for_each(|x| texts(x, out)),
        Canon::El { children, .. } => children.iter().for_each(|x| texts(x, out)),
        Canon::Text(t) => out.push_str(t),
        _ => {}
    }
}

pub fn h_c13_deep_equal() {
    let mut xot = Xot::new();
    let nm = names(&mut xot);
    let shape = sym::choose("shape", 4);
    let va = sym::choose("va", 2) * 8; // base tree: variant 0 or 8
    let vb = sym::choose("vb", VARIANTS);
    let (a0, a1, a2, a3) = (one("a0"), one("a1"), one("a2"), one("a3"));
    let (b0, b1, b2, b3) = (one("b0"), one("b1"), one("b2"), one("b3"));
    let a = build(&mut xot, &nm, shape, va, [&a0, &a1, &a2, &a3]);
    let b = build(&mut xot, &nm, shape, vb, [&b0, &b1, &b2, &b3]);
    let ca = canon(&xot, a);
    let cb = canon(&xot, b);
    let want = canon_eq(&ca, &cb);
    sym::check("deep-equal-is-canonical-equality", xot.deep_equal(a, b) == want);
    sym::check("deep-equal-symmetric", xot.deep_equal(b, a) == want);
    sym::check("deep-equal-reflexive", xot.deep_equal(a, a) && xot.deep_equal(b, b));
    // children only
    let (cha, chb) = match (&ca, &cb) {
        (Canon::El { children: x, .. }, Canon::El { children: y, .. }) => (x.clone(), y.clone()),
        _ => (vec![], vec![]),
    };
    sym::check("deep-equal-children", xot.deep_equal_children(a, b) == canon_list_eq(&cha, &chb));
    // xpath flavour: comments / PIs below the compared nodes are ignored
    let wantx = canon_eq(&strip(&ca), &strip(&cb));
    sym::check("deep-equal-xpath", xot.deep_equal_xpath(a, b, |x, y| x == y) == wantx);
    sym::check("deep-equal-xpath-symmetric", xot.deep_equal_xpath(b, a, |x, y| x == y) == wantx);
    // advanced: filter that rejects the compared nodes themselves (only the content is compared)
    let adv = xot.advanced_deep_equal(a, b, |n| n != a && n != b, |x, y| x == y);
    sym::check("advanced-deep-equal-filtered-roots", adv == canon_list_eq(&cha, &chb));
    // string value
    let mut sa = String::new();
    texts(&ca, &mut sa);
    sym::check("string-value-element", xot.string_value(a) == sa);
    for c in xot.children(a) {
        let want = match canon(&xot, c) {
            Canon::Text(t) => t,
            Canon::Comment(t) => t,
            Canon::Pi(_, d) => d.unwrap_or_default(),
            other => {
                let mut s = String::new();
                texts(&other, &mut s);
                s
            }
        };
        sym::check("string-value-child", xot.string_value(c) == want);
    }
    for an in xot.attributes(a).nodes() {
        let v = xot.attribute_node(an).unwrap().value().to_string();
        sym::check("string-value-attribute", xot.string_value(an) == v);
    }
    // documents wrapping the two: deep_equal on document nodes, fragments with an extra top-level node
    let da = xot.new_document();
    let db = xot.new_document();
    let a2c = xot.clone_node(a);
    let b2c = xot.clone_node(b);
    xot.append(da, a2c).unwrap();
    xot.append(db, b2c).unwrap();
    sym::check("deep-equal-documents", xot.deep_equal(da, db) == want);
    sym::check("deep-equal-xpath-documents", xot.deep_equal_xpath(da, db, |x, y| x == y) == wantx);
    let extra = xot.new_element(nm.t);
    xot.append(db, extra).unwrap();
    sym::check("deep-equal-documents-extra-element", !xot.deep_equal(da, db) && !xot.deep_equal(db, da));
    sym::check(
        "deep-equal-xpath-documents-extra-element",
        !xot.deep_equal_xpath(da, db, |x, y| x == y) && !xot.deep_equal_xpath(db, da, |x, y| x == y),
    );
}

pub fn h_c13_shallow() {
    let mut xot = Xot::new();
    let nm = names(&mut xot);
    let va = sym::choose("va", 2) * 4; // 0 or 4 (extra attribute t)
    let vb = sym::choose("vb", 7);
    let (a0, a1) = (one("a0"), one("a1"));
    let (b0, b1) = (one("b0"), one("b1"));
    let a = build(&mut xot, &nm, 0, va, [&a0, &a1, "k", "k"]);
    let vbb = match vb {
        6 => 12,
        v => v,
    };
    let b = build(&mut xot, &nm, 0, vbb, [&b0, &b1, "other", "k"]);
    // attribute sets of different sizes, including an element without any attribute on either side
    match sym::choose("strip", 4) {
        1 => {
            xot.remove_attribute(a, nm.x);
            xot.remove_attribute(a, nm.y);
        }
        2 => {
            xot.remove_attribute(a, nm.y);
        }
        3 => {
            xot.remove_attribute(b, nm.x);
            xot.remove_attribute(b, nm.x_ns);
            xot.remove_attribute(b, nm.y);
        }
        _ => {}
    }
    let (na, attrs_a) = match canon(&xot, a) {
        Canon::El { name, attrs, .. } => (name, attrs),
        _ => unreachable!(),
    };
    let (nb, attrs_b) = match canon(&xot, b) {
        Canon::El { name, attrs, .. } => (name, attrs),
        _ => unreachable!(),
    };
    let ig = sym::choose("ignore", 8);
    let ignore: Vec<NameId> = match ig {
        0 => vec![],
        1 => vec![nm.x],
        2 => vec![nm.t],
        3 => vec![nm.x, nm.t],
        4 => vec![nm.y, nm.y],
        5 => vec![nm.b],
        6 => vec![nm.x, nm.y],
        _ => vec![nm.y, nm.t, nm.x, nm.x_ns],
    };
    let ignored: Vec<(String, String)> = ignore.iter().map(|n| name_pair(&xot, *n)).collect();
    let fa: Vec<_> = attrs_a.iter().filter(|(k, _)| !ignored.contains(k)).cloned().collect();
    let fb: Vec<_> = attrs_b.iter().filter(|(k, _)| !ignored.contains(k)).cloned().collect();
    let want = na == nb && {
        let ea = Canon::El { name: na.clone(), attrs: fa, children: vec![] };
        let eb = Canon::El { name: na.clone(), attrs: fb, children: vec![] };
        canon_eq(&ea, &eb)
    };
    sym::check("shallow-equal-ignore-attributes", xot.shallow_equal_ignore_attributes(a, b, &ignore) == want);
    sym::check("shallow-equal-ignore-attributes-symmetric", xot.shallow_equal_ignore_attributes(b, a, &ignore) == want);
    if ig == 0 {
        sym::check("shallow-equal", xot.shallow_equal(a, b) == want);
    }
    // non-elements: compares the node itself
    let ta = xot.first_child(a).unwrap();
    let tb = xot.first_child(b).unwrap();
    sym::check("shallow-equal-text", xot.shallow_equal(ta, tb) == (xot.text_str(ta) == xot.text_str(tb)));
    sym::check("shallow-equal-mixed-kinds", !xot.shallow_equal(a, tb));
}

/// one leaf node of a kind; content symbolic
fn leaf(xot: &mut Xot, nm: &Names, kind: usize, tag: &'static str) -> (Node, (usize, usize, String)) {
    // returns the node and its canonical description (kind, name choice, content)
    let c = one(tag);
    match kind {
        0 => (xot.new_text(&c), (0, 0, c)),
        1 => (xot.new_comment(&c), (1, 0, c)),
        2 => (xot.new_processing_instruction(nm.t, None), (2, 0, String::new())),
        3 => (xot.new_processing_instruction(nm.b, None), (2, 1, String::new())),
        4 => (xot.new_processing_instruction(nm.t, Some(&c)), (3, 0, c)),
        5 => (xot.new_processing_instruction(nm.b, Some(&c)), (3, 1, c)),
        6 => (xot.new_attribute_node(nm.x, c.clone()), (4, 0, c)),
        7 => (xot.new_attribute_node(nm.y, c.clone()), (4, 1, c)),
        8 | 9 => {
            let p = xot.add_prefix("p");
            let ns = xot.add_namespace(if kind == 8 { "urn:1" } else { "urn:2" });
            (xot.new_namespace_node(p, ns), (5, kind - 8, String::new()))
        }
        _ => {
            let q = xot.add_prefix("q");
            let ns = xot.add_namespace("urn:1");
            (xot.new_namespace_node(q, ns), (5, 2, String::new()))
        }
    }
}

/// the equality family on single non-element nodes of every kind, pairwise
pub fn h_c13_leaves() {
    let mut xot = Xot::new();
    let nm = names(&mut xot);
    let ka = sym::choose("ka", 11);
    let kb = sym::choose("kb", 11);
    let (a, da) = leaf(&mut xot, &nm, ka, "ca");
    let (b, db) = leaf(&mut xot, &nm, kb, "cb");
    let want = da == db;
    sym::check("leaf-deep-equal", xot.deep_equal(a, b) == want);
    sym::check("leaf-deep-equal-symmetric", xot.deep_equal(b, a) == want);
    sym::check("leaf-shallow-equal", xot.shallow_equal(a, b) == want);
    sym::check("leaf-shallow-equal-ignore-attributes", xot.shallow_equal_ignore_attributes(a, b, &[nm.x]) == want);
    sym::check("leaf-deep-equal-xpath", xot.deep_equal_xpath(a, b, |x, y| x == y) == want);
    sym::check("leaf-advanced-deep-equal", xot.advanced_deep_equal(a, b, |_| true, |x, y| x == y) == want);
    sym::check("leaf-reflexive", xot.deep_equal(a, a) && xot.shallow_equal(b, b));
    // as the only child of two equal elements
    if ka < 6 && kb < 6 {
        let ea = xot.new_element(nm.a);
        let eb = xot.new_element(nm.a);
        xot.append(ea, a).unwrap();
        xot.append(eb, b).unwrap();
        sym::check("leaf-as-child-deep-equal", xot.deep_equal(ea, eb) == want);
        sym::check("leaf-as-child-deep-equal-children", xot.deep_equal_children(ea, eb) == want);
    }
}
