//! T tier: manipulation API on small worlds (C04, C06).
use crate::common::{check_forest, kind_code, snapshot};
use crate::sym;
use crate::world::*;
use xot::Node;

pub fn register(v: &mut Vec<(&'static str, crate::Harness)>) {
    v.push(("h_c04_step", h_c04_step));
    v.push(("h_c06_step", h_c06_step));
    v.push(("h_c04_xmlid", h_c04_xmlid));
}

/// the catalogue forests, plus forest 0 built with text consolidation off (three adjacent text
/// nodes) and consolidation switched on again before the call
fn build_or_toggled(shape: usize) -> World {
    if shape < SHAPES {
        return build(shape, true);
    }
    let mut w = build(0, false);
    w.xot.set_text_consolidation(true);
    w
}

fn pick(w: &World, name: &'static str) -> Node {
    w.nodes[sym::choose(name, w.nodes.len())]
}

/// one call of the mutating API with arbitrary live arguments; returns
/// (ok, new nodes). Element-only accessors are only applied to elements
/// (their panic on non-elements is documented).
fn one_call(w: &mut World, tag: (&'static str, &'static str, &'static str, &'static str)) -> (bool, Vec<Node>) {
    let opkind = sym::choose(tag.0, 3);
    match opkind {
        0 => {
            let op = sym::choose(tag.1, OPS2);
            let a = pick(w, tag.2);
            let b = pick(w, tag.3);
            sym::assume(!w.xot.is_removed(a) && !w.xot.is_removed(b));
            match apply2(w, op, a, b) {
                Ok(n) => (true, n),
                Err(_) => (false, vec![]),
            }
        }
        1 => {
            let op = sym::choose(tag.1, OPS1);
            let a = pick(w, tag.2);
            sym::assume(!w.xot.is_removed(a));
            sym::class(
                "KF-C04-unwrap-parentless-element",
                op == 3 && w.xot.is_element(a) && w.xot.parent(a).is_none() && w.xot.children(a).count() > 1,
            );
            match apply1(w, op, a) {
                Ok(n) => (true, n),
                Err(_) => (false, vec![]),
            }
        }
        _ => {
            let op = sym::choose(tag.1, OPSE);
            let a = pick(w, tag.2);
            sym::assume(!w.xot.is_removed(a));
            sym::assume(w.xot.is_element(a));
            apply_e(w, op, a);
            (true, vec![])
        }
    }
}

/// C04: after one (quick) or two (thorough) arbitrary calls - successful or
/// refused - on any live nodes, every tree is structurally valid.
pub fn h_c04_step() {
    let shape = sym::choose("shape", SHAPES + 1);
    let mut w = build_or_toggled(shape);
    let never_off = shape < SHAPES;
    let calls = sym::param("CALLS", 1);
    let (_ok, new1) = one_call(&mut w, ("opkind", "op", "a", "b"));
    w.nodes.extend(new1);
    let all = collect_all(&w.xot, &w.nodes);
    w.nodes = all;
    check_forest(&w.xot, &w.nodes, never_off);
    if calls > 1 {
        let (_ok, new2) = one_call(&mut w, ("opkind2", "op2", "a2", "b2"));
        w.nodes.extend(new2);
        let all = collect_all(&w.xot, &w.nodes);
        w.nodes = all;
        check_forest(&w.xot, &w.nodes, never_off);
    }
    // a removed node stays removed, also after new nodes are created
    let removed: Vec<Node> = w.nodes.iter().copied().filter(|n| w.xot.is_removed(*n)).collect();
    let fresh = w.xot.new_comment("z");
    let fresh2 = w.xot.new_comment("z");
    for r in removed {
        sym::check("removed-stays-removed", w.xot.is_removed(r));
        sym::check("fresh-handle-distinct-from-removed", fresh != r && fresh2 != r);
    }
    sym::cover("c04-end");
}

/// C06: a call on live nodes never panics (engine: every panic edge is a
/// finding) and a refused call changes nothing observable.
pub fn h_c06_step() {
    let shape = sym::choose("shape", SHAPES + 1);
    let mut w = build_or_toggled(shape);
    let all0 = collect_all(&w.xot, &w.nodes);
    w.nodes = all0;
    let before = snapshot(&w.xot, &w.nodes);
    let opkind = sym::choose("opkind", 2);
    let refused;
    if opkind == 0 {
        let op = sym::choose("op", OPS2);
        let a = pick(&w, "a");
        let b = pick(&w, "b");
        let ka = kind_code(&w.xot, a);
        let kb = kind_code(&w.xot, b);
        sym::emit_u64("op2", op as u64);
        sym::emit_u64("ka", ka as u64);
        sym::emit_u64("kb", kb as u64);
        refused = apply2(&mut w, op, a, b).is_err();
    } else {
        let op = sym::choose("op", OPS1);
        let a = pick(&w, "a");
        let ka = kind_code(&w.xot, a);
        sym::emit_u64("op1", op as u64);
        sym::emit_u64("ka", ka as u64);
        refused = apply1(&mut w, op, a).is_err();
    }
    if refused {
        let after = snapshot(&w.xot, &w.nodes);
        sym::check("refused-call-changed-nothing", before == after);
        sym::cover("c06-refused");
    } else {
        sym::cover("c06-ok");
    }
}

/// C04 "no accessor ever hands out a removed node", for the one accessor that answers from a table filled at
/// parse time: after one removing / moving call on a parsed document with xml:id attributes, `xml_id_node`
/// returns nothing or a live node.
pub fn h_c04_xmlid() {
    let mut xot = xot::Xot::new();
    let idc = sym::any_string("id", 1);
    for c in idc.chars() {
        sym::assume(c.is_ascii_alphabetic());
    }
    let src = format!("<a><b xml:id=\"{}\"><c xml:id=\"j9\"/>u</b>t<d/></a>", idc);
    let doc = match xot.parse(&src) {
        Ok(d) => d,
        Err(_) => {
            sym::check("well-formed-document-accepted", false);
            return;
        }
    };
    let a = xot.document_element(doc).unwrap();
    let b = xot.first_child(a).unwrap();
    let c = xot.first_child(b).unwrap();
    let d = xot.last_child(a).unwrap();
    let target = [b, c, d, a][sym::choose("target", 4)];
    sym::check("id-found-before", xot.xml_id_node(doc, &idc) == Some(b) && xot.xml_id_node(doc, "j9") == Some(c));
    let r = match sym::choose("op", 5) {
        0 => xot.remove(target).is_ok(),
        1 => xot.detach(target).is_ok(),
        2 => xot.element_unwrap(target).is_ok(),
        3 => {
            let name = xot.add_name("n");
            let fresh = xot.new_element(name);
            xot.replace(target, fresh).is_ok()
        }
        _ => {
            let t = xot.new_text("z");
            xot.replace(target, t).is_ok()
        }
    };
    sym::emit_u64("ok", r as u64);
    for id in [idc.as_str(), "j9"] {
        if let Some(n) = xot.xml_id_node(doc, id) {
            sym::check("xml-id-node-is-live", !xot.is_removed(n));
        }
    }
    sym::cover("c04-xmlid-end");
}
