//! C18 (whitespace stripping), C12 (clone), C20 (three ways to build a document)
use crate::common::*;
use crate::sym;
use xot::{Node, Xot};

pub fn register(v: &mut Vec<(&'static str, crate::Harness)>) {
    v.push(("h_c18_strip", h_c18_strip));
    v.push(("h_c18_adjacent", h_c18_adjacent));
    v.push(("h_c12_clone", h_c12_clone));
    v.push(("h_c12_xot_clone", h_c12_xot_clone));
    v.push(("h_c12_clone_with_prefixes", h_c12_clone_with_prefixes));
    v.push(("h_c20_three_ways", h_c20_three_ways));
}

fn is_xml_ws(c: char) -> bool {
    (c == ' ') | (c == '\t') | (c == '\r') | (c == '\n')
}

fn one(name: &'static str) -> String {
    let s = sym::any_string(name, 1);
    for c in s.chars() {
        sym::assume(is_xml_char(c));
    }
    s
}

/// xml:space attribute choice: 0 none, 1 preserve, 2 default, 3 other value
fn set_space(xot: &mut Xot, el: Node, choice: usize) {
    let name = xot.xml_space_name();
    match choice {
        1 => xot.set_attribute(el, name, "preserve"),
        2 => xot.set_attribute(el, name, "default"),
        3 => xot.set_attribute(el, name, "keep"),
        _ => {}
    }
}

/// innermost xml:space decides; anything but "preserve" does not preserve
fn preserved(chain: &[usize]) -> bool {
    for c in chain.iter().rev() {
        if *c != 0 {
            return *c == 1;
        }
    }
    false
}

pub fn h_c18_strip() {
    let mut xot = Xot::new();
    let (na, nb, np) = (xot.add_name("a"), xot.add_name("b"), xot.add_name("p"));
    let xs0 = sym::choose("xs0", 4);
    let xs1 = sym::choose("xs1", 4);
    let root = xot.new_element(na);
    let doc = xot.new_document_with_element(root).unwrap();
    set_space(&mut xot, root, xs0);
    let p = xot.new_element(np);
    set_space(&mut xot, p, xs1);
    // two contents are fully symbolic, the others are a choice between XML whitespace,
    // a non-XML Unicode space and a letter (every symbolic character multiplies the paths)
    let picks = sym::param("PICKS", 2);
    let pick = |nm: &'static str| -> String { [" ", "x", "\u{a0}"][sym::choose(nm, picks)].to_string() };
    let texts: Vec<String> = vec![pick("t0"), one("t1"), one("t2"), pick("t3"), pick("t4")];
    // root: t0 p t4 ; p: t1 <b/> t2 <!--c--> t3
    let t: Vec<Node> = texts.iter().map(|s| xot.new_text(s)).collect();
    xot.append(root, t[0]).unwrap();
    xot.append(root, p).unwrap();
    xot.append(root, t[4]).unwrap();
    xot.append(p, t[1]).unwrap();
    let b = xot.new_element(nb);
    xot.append(p, b).unwrap();
    xot.append(p, t[2]).unwrap();
    let c = xot.new_comment("c");
    xot.append(p, c).unwrap();
    xot.append(p, t[3]).unwrap();
    let ws: Vec<bool> = texts.iter().map(|s| s.chars().all(is_xml_ws)).collect();
    // expected removals
    let root_sig = !ws[0] || !ws[4];
    let p_sig = !ws[1] || !ws[2] || !ws[3];
    let pres_root = preserved(&[xs0]);
    let pres_p = preserved(&[xs0, xs1]);
    let expect = [
        ws[0] && !root_sig && !pres_root,
        ws[1] && !p_sig && !pres_p,
        ws[2] && !p_sig && !pres_p,
        ws[3] && !p_sig && !pres_p,
        ws[4] && !root_sig && !pres_root,
    ];
    // non-XML white space (U+00A0, U+0085, U+2003 ...) is character data
    let target = if sym::choose("target", sym::param("TARGETS", 1)) == 0 { doc } else { root };
    xot.remove_insignificant_whitespace(target);
    for k in 0..5 {
        sym::check("removed-exactly-the-insignificant-whitespace", xot.is_removed(t[k]) == expect[k]);
        if !xot.is_removed(t[k]) {
            sym::check("kept-text-untouched", xot.text_str(t[k]) == Some(texts[k].as_str()));
        }
    }
    sym::check("other-nodes-untouched", !xot.is_removed(p) && !xot.is_removed(b) && !xot.is_removed(c) && xot.parent(p) == Some(root) && xot.parent(b) == Some(p) && xot.comment_str(c) == Some("c"));
    let order_p: Vec<Node> = xot.children(p).collect();
    let mut want_p: Vec<Node> = Vec::new();
    for (k, n) in [(1usize, t[1]), (9, b), (2, t[2]), (9, c), (3, t[3])] {
        if k == 9 || !expect[k] {
            want_p.push(n);
        }
    }
    sym::check("order-untouched", order_p == want_p);
    // idempotent
    let before = full(&xot, doc);
    xot.remove_insignificant_whitespace(target);
    sym::check("second-application-changes-nothing", full(&xot, doc) == before);
}

// ---------------------------------------------------------------------------
// C12

fn build_source(xot: &mut Xot, shape: usize, consolidate: bool) -> (Node, Vec<Node>) {
    // returns (node to clone, all nodes of the source tree)
    if !consolidate {
        xot.set_text_consolidation(false);
    }
    let (na, nb) = (xot.add_name("a"), xot.add_name("b"));
    let ns = xot.add_namespace("urn:1");
    let p = xot.add_prefix("p");
    let q = xot.add_prefix("q");
    let nx = xot.add_name("x");
    let ny = xot.add_name_ns("y", ns);
    let a = xot.new_element(na);
    let doc = xot.new_document_with_element(a).unwrap();
    xot.set_namespace(a, p, ns);
    xot.set_namespace(a, q, ns);
    xot.set_attribute(a, nx, one("v1"));
    xot.set_attribute(a, ny, one("v2"));
    let t1 = xot.new_text(&one("t1"));
    xot.append(a, t1).unwrap();
    if !consolidate {
        // adjacent text nodes in the source
        let t1b = xot.new_text(&one("t1b"));
        xot.append(a, t1b).unwrap();
    }
    let b = xot.new_element(nb);
    xot.append(a, b).unwrap();
    xot.set_namespace(b, p, ns);
    let c = xot.new_comment(&one("c1"));
    xot.append(b, c).unwrap();
    let pi = xot.new_processing_instruction(nb, Some(&one("p1")));
    xot.append(a, pi).unwrap();
    // a childless, attribute-less element that only carries a declaration
    let leaf = xot.new_element(nb);
    xot.set_namespace(leaf, q, ns);
    xot.append(a, leaf).unwrap();
    let all = crate::world::collect_all(xot, &[doc]);
    let target = match shape {
        0 => doc,
        1 => a,
        2 => b,
        3 => t1,
        4 => c,
        5 => pi,
        6 => xot.attributes(a).nodes().next().unwrap(),
        7 => leaf,
        _ => xot.namespaces(a).nodes().next().unwrap(),
    };
    (target, all)
}

pub fn h_c12_clone() {
    let mut xot = Xot::new();
    let shape = sym::choose("shape", 9);
    let consolidate = sym::choose("consolidate", 2) == 1;
    let (src, all) = build_source(&mut xot, shape, consolidate);
    // cloning happens with consolidation on or off, independent of how the source was built
    let clone_consolidation = sym::choose("clone_consolidation", 2) == 1;
    xot.set_text_consolidation(clone_consolidation);
    let before = snapshot(&xot, &all);
    let src_full = full(&xot, src);
    let src_canon = canon(&xot, src);
    let clone = xot.clone_node(src);
    // the source is unchanged by the cloning
    sym::check("source-unchanged", snapshot(&xot, &all) == before);
    // new, unattached
    sym::check("clone-unattached", xot.parent(clone).is_none() && xot.next_sibling(clone).is_none() && xot.previous_sibling(clone).is_none());
    let clone_nodes = crate::world::collect_all(&xot, &[clone]);
    for n in &clone_nodes {
        sym::check("clone-made-of-new-nodes", !all.contains(n));
    }
    // equal to the source: same declarations and attribute order too, up to merging of adjacent text
    let adjacent_text_in_source = !consolidate && (shape == 0 || shape == 1);
    if !(adjacent_text_in_source && clone_consolidation) {
        sym::check("clone-equals-source-incl-declarations-and-order", full(&xot, clone) == src_full);
        sym::check("clone-deep-equal", xot.deep_equal(src, clone));
    } else {
        // text nodes that were adjacent in the source may be merged: compare string values and the rest
        sym::check("clone-string-value", xot.string_value(clone) == xot.string_value(src));
    }
    let _ = src_canon;
    // a later mutation of either side leaves the other untouched
    let side = sym::choose("mutate", 2);
    let clone_before = snapshot(&xot, &clone_nodes);
    let victim_pool = if side == 0 { &all } else { &clone_nodes };
    let victim = victim_pool[sym::choose("victim", victim_pool.len())];
    let mop = sym::choose("mop", 3);
    match mop {
        0 => {
            let _ = xot.remove(victim);
        }
        1 => {
            if xot.is_element(victim) {
                let nx = xot.add_name("x");
                xot.set_attribute(victim, nx, "changed");
                let w = xot.add_name("w");
                xot.set_element_name(victim, w);
            } else if let Some(t) = xot.text_mut(victim) {
                t.set("changed");
            }
        }
        _ => {
            if xot.is_element(victim) || xot.is_document(victim) {
                let _ = xot.append_text(victim, "more");
            }
        }
    }
    if side == 0 {
        sym::check("clone-untouched-by-mutation-of-source", snapshot(&xot, &clone_nodes) == clone_before);
    } else {
        sym::check("source-untouched-by-mutation-of-clone", snapshot(&xot, &all) == before);
    }
}

pub fn h_c12_clone_with_prefixes() {
    use crate::t_names::{config, ids, scope, CONFIGS};
    let mut xot = Xot::new();
    let i = ids(&mut xot);
    let c0 = sym::choose("c0", CONFIGS);
    let c1 = sym::choose("c1", CONFIGS);
    let ns1 = [i.none, i.a, i.b][sym::choose("ns1", 3)];
    let ns2 = [i.none, i.a, i.b][sym::choose("ns2", 3)];
    let nsa = [i.none, i.a][sym::choose("nsa", 2)];
    let n0 = xot.add_name("r");
    let n1 = xot.add_name_ns("e", ns1);
    let n2 = xot.add_name_ns("f", ns2);
    let na = xot.add_name_ns("t", nsa);
    let e0 = xot.new_element(n0);
    let doc = xot.new_document_with_element(e0).unwrap();
    let e1 = xot.new_element(n1);
    let e2 = xot.new_element(n2);
    xot.append(e0, e1).unwrap();
    xot.append(e1, e2).unwrap();
    // optionally an earlier sibling of e2 that is in namespace A / B and declares it itself (under its own
    // prefix): that namespace is resolved inside the sibling only, e2 may still need the inherited binding
    let fork = sym::choose("fork", 3);
    if fork > 0 {
        let ns3 = if fork == 1 { i.a } else { i.b };
        let n3 = xot.add_name_ns("g", ns3);
        let e3 = xot.new_element(n3);
        let z = xot.add_prefix("z");
        xot.set_namespace(e3, z, ns3);
        xot.prepend(e1, e3).unwrap();
    }
    for (p, ns) in config(&i, c0) {
        xot.set_namespace(e0, p, ns);
    }
    for (p, ns) in config(&i, c1) {
        xot.set_namespace(e1, p, ns);
    }
    xot.set_attribute(e2, na, "v");
    let in_place_ok = xot.to_string(doc).is_ok();
    let own_decls = decls(&xot, e1);
    let clone = xot.clone_with_prefixes(e1);
    sym::check("clone-unattached", xot.parent(clone).is_none());
    sym::check("clone-deep-equal", xot.deep_equal(e1, clone));
    // the clone keeps the element's own declarations (same prefix -> same namespace, same order first)
    let cd = decls(&xot, clone);
    sym::check("own-declarations-kept-first", cd.len() >= own_decls.len() && cd[..own_decls.len()] == own_decls[..]);
    // whatever was added is an in-scope binding of the source's parent
    let xml = (xot.xml_prefix(), xot.xml_namespace());
    let parent_scope = scope(&i, xml, &[config(&i, c0)]);
    for (p, u) in &cd[own_decls.len()..] {
        let ok = parent_scope.iter().any(|(pp, nn)| xot.prefix_str(*pp) == p.as_str() && xot.namespace_str(*nn) == u.as_str());
        sym::check("added-declaration-was-in-scope", ok);
    }
    // the clone serialises on its own whenever the source serialised in place
    // (known defect shared with C01/C10: a no-namespace element under a default namespace)
    if in_place_ok {
        sym::check("clone-serialises-on-its-own", xot.to_string(clone).is_ok());
    }
}

// ---------------------------------------------------------------------------
// C20

use xot::fixed;

pub fn h_c20_three_ways() {
    let mut xot = Xot::new();
    // one of the three contents is symbolic on a path, the others are the letter k
    let group = sym::choose("group", 3);
    let t1 = if group == 0 { one("t1") } else { "k".to_string() };
    let v1 = if group == 1 { one("v1") } else { "k".to_string() };
    let c1 = if group == 2 { one("c1") } else { "k".to_string() };
    sym::assume(c1 != "-");
    let nbefore = sym::choose("before", 3);
    let nafter = sym::choose("after", 3);
    let order = sym::choose("order", 4);
    // abstract document: [before...] <a xmlns:p="urn:1" xmlns:q="urn:2" x="v1">t1<p:b/><!--c1--></a> [after...]
    let mk_misc = |k: usize| -> fixed::DocumentContent {
        if k == 0 {
            fixed::DocumentContent::Comment("m".to_string())
        } else {
            fixed::DocumentContent::ProcessingInstruction(fixed::ProcessingInstruction { target: "pi".to_string(), content: Some("d".to_string()) })
        }
    };
    let before: Vec<fixed::DocumentContent> = (0..nbefore).map(mk_misc).collect();
    let after: Vec<fixed::DocumentContent> = (0..nafter).map(|k| mk_misc(1 - k.min(1))).collect();
    let fdoc = fixed::Document {
        before,
        document_element: fixed::Element {
            name: fixed::Name { localname: "a".to_string(), namespace: "".to_string() },
            prefixes: vec![
                fixed::Prefix { name: "p".to_string(), namespace: "urn:1".to_string() },
                fixed::Prefix { name: "q".to_string(), namespace: "urn:2".to_string() },
            ],
            attributes: vec![(fixed::Name { localname: "x".to_string(), namespace: "".to_string() }, v1.clone())],
            children: vec![
                fixed::Content::Text(format!("{}z", t1)),
                fixed::Content::Element(fixed::Element {
                    name: fixed::Name { localname: "b".to_string(), namespace: "urn:1".to_string() },
                    prefixes: vec![],
                    attributes: vec![],
                    children: vec![],
                }),
                fixed::Content::Comment(c1.clone()),
            ],
        },
        after,
    };
    let d1 = fdoc.xotify(&mut xot);
    // stepwise
    let ns = xot.add_namespace("urn:1");
    let p = xot.add_prefix("p");
    let ns2 = xot.add_namespace("urn:2");
    let q = xot.add_prefix("q");
    let (na, nx, npi) = (xot.add_name("a"), xot.add_name("x"), xot.add_name("pi"));
    let nb = xot.add_name_ns("b", ns);
    let d2;
    let misc = |xot: &mut Xot, k: usize| -> Node {
        if k == 0 {
            xot.new_comment("m")
        } else {
            xot.new_processing_instruction(npi, Some("d"))
        }
    };
    match order {
        0 => {
            // top-down, left to right
            let a = xot.new_element(na);
            d2 = xot.new_document_with_element(a).unwrap();
            for k in 0..nbefore {
                let m = misc(&mut xot, k);
                xot.insert_before(a, m).unwrap();
            }
            xot.set_namespace(a, p, ns);
            xot.set_namespace(a, q, ns2);
            xot.set_attribute(a, nx, v1.clone());
            xot.append_text(a, &format!("{}z", t1)).unwrap();
            let b = xot.new_element(nb);
            xot.append(a, b).unwrap();
            xot.append_comment(a, &c1).unwrap();
            for k in 0..nafter {
                let m = misc(&mut xot, 1 - k.min(1));
                xot.append(d2, m).unwrap();
            }
        }
        3 => {
            // the text arrives in two parts: the second is inserted before the following element
            let a = xot.new_element(na);
            d2 = xot.new_document_with_element(a).unwrap();
            for k in 0..nbefore {
                let m = misc(&mut xot, k);
                xot.insert_before(a, m).unwrap();
            }
            xot.set_namespace(a, p, ns);
            xot.set_namespace(a, q, ns2);
            xot.set_attribute(a, nx, v1.clone());
            xot.append_text(a, &t1).unwrap();
            let b = xot.new_element(nb);
            xot.append(a, b).unwrap();
            let z = xot.new_text("z");
            xot.insert_before(b, z).unwrap();
            xot.append_comment(a, &c1).unwrap();
            for k in 0..nafter {
                let m = misc(&mut xot, 1 - k.min(1));
                xot.append(d2, m).unwrap();
            }
        }
        1 => {
            // bottom-up: children first, document last
            let b = xot.new_element(nb);
            let t = xot.new_text(&format!("{}z", t1));
            let c = xot.new_comment(&c1);
            let a = xot.new_element(na);
            xot.append(a, t).unwrap();
            xot.append(a, b).unwrap();
            xot.append(a, c).unwrap();
            xot.set_attribute(a, nx, v1.clone());
            xot.set_namespace(a, p, ns);
            xot.set_namespace(a, q, ns2);
            d2 = xot.new_document();
            for k in 0..nbefore {
                let m = misc(&mut xot, k);
                xot.append(d2, m).unwrap();
            }
            xot.append(d2, a).unwrap();
            for k in 0..nafter {
                let m = misc(&mut xot, 1 - k.min(1));
                xot.append(d2, m).unwrap();
            }
        }
        _ => {
            // right to left via prepend / insert_before
            let a = xot.new_element(na);
            d2 = xot.new_document_with_element(a).unwrap();
            xot.set_namespace(a, p, ns);
            xot.set_namespace(a, q, ns2);
            xot.set_attribute(a, nx, v1.clone());
            let c = xot.new_comment(&c1);
            xot.prepend(a, c).unwrap();
            let b = xot.new_element(nb);
            xot.insert_before(c, b).unwrap();
            let t = xot.new_text(&format!("{}z", t1));
            xot.prepend(a, t).unwrap();
            for k in (0..nafter).rev() {
                let m = misc(&mut xot, 1 - k.min(1));
                xot.insert_after(a, m).unwrap();
            }
            for k in (0..nbefore).rev() {
                let m = misc(&mut xot, k);
                xot.prepend(d2, m).unwrap();
            }
        }
    }
    sym::check("fixed-and-stepwise-same-tree", full(&xot, d1) == full(&xot, d2));
    sym::check("fixed-and-stepwise-deep-equal", xot.deep_equal(d1, d2));
    // leading / trailing content sits before / after the document element, in order
    let kids: Vec<Node> = xot.children(d1).collect();
    sym::check("document-children-count", kids.len() == nbefore + 1 + nafter);
    if kids.len() == nbefore + 1 + nafter {
        sym::check("document-element-position", xot.is_element(kids[nbefore]));
    }
    // third way: parse the serialisation of the stepwise tree
    if let Ok(s) = xot.to_string(d2) {
        match xot.parse(&s) {
            Ok(d3) => {
                sym::check("parsed-same-tree", full(&xot, d3) == full(&xot, d1));
                sym::check("serialise-identically", xot.to_string(d1).ok() == Some(s) );
            }
            Err(_) => sym::check("serialisation-parses", false),
        }
    }
}

fn mutate(xot: &mut Xot, victim: Node, mop: usize) {
    match mop {
        0 => {
            let _ = xot.remove(victim);
        }
        1 => {
            if xot.is_element(victim) {
                let nx = xot.add_name("x");
                xot.set_attribute(victim, nx, "changed");
                let w = xot.add_name("w");
                xot.set_element_name(victim, w);
            } else if let Some(t) = xot.text_mut(victim) {
                t.set("changed");
            }
        }
        _ => {
            if xot.is_element(victim) || xot.is_document(victim) {
                let _ = xot.append_text(victim, "more");
            }
        }
    }
}

/// cloning the whole Xot gives an independent store in which every handle and id
/// denotes an equal node or name
pub fn h_c12_xot_clone() {
    let shape = sym::choose("shape", crate::world::SHAPES);
    let mut w = crate::world::build(shape, true);
    let all = crate::world::collect_all(&w.xot, &w.nodes);
    let before = snapshot(&w.xot, &all);
    let mut copy = w.xot.clone();
    sym::check("xot-clone-every-handle-denotes-an-equal-node", snapshot(&copy, &all) == before);
    sym::check(
        "xot-clone-ids-keep-their-meaning",
        copy.name_ns_str(w.name_a) == w.xot.name_ns_str(w.name_a)
            && copy.name_ns_str(w.attr_y) == w.xot.name_ns_str(w.attr_y)
            && copy.prefix_str(w.pfx_q) == "q"
            && copy.namespace_str(w.ns_2) == "urn:2",
    );
    sym::check("source-unchanged-by-xot-clone", snapshot(&w.xot, &all) == before);
    let side = sym::choose("mutate", 2);
    let victim = all[sym::choose("victim", all.len())];
    let mop = sym::choose("mop", 3);
    if side == 0 {
        mutate(&mut w.xot, victim, mop);
        sym::check("xot-clone-untouched-by-mutation-of-original", snapshot(&copy, &all) == before);
    } else {
        mutate(&mut copy, victim, mop);
        sym::check("original-untouched-by-mutation-of-xot-clone", snapshot(&w.xot, &all) == before);
    }
}

/// adjacent text nodes (text consolidation switched off while the tree is built): a
/// whitespace node directly next to a text node with other content is significant
pub fn h_c18_adjacent() {
    let mut xot = Xot::new();
    xot.set_text_consolidation(false);
    let (na, nb) = (xot.add_name("a"), xot.add_name("b"));
    let root = xot.new_element(na);
    let doc = xot.new_document_with_element(root).unwrap();
    let pick = |nm: &'static str| -> String { [" ", "x"][sym::choose(nm, 2)].to_string() };
    // root: s0 s1 <b/> s2 s3   (s0,s1 adjacent; s2,s3 adjacent)
    let texts: Vec<String> = vec![pick("s0"), one("s1"), pick("s2"), pick("s3")];
    let t: Vec<Node> = texts.iter().map(|s| xot.new_text(s)).collect();
    xot.append(root, t[0]).unwrap();
    xot.append(root, t[1]).unwrap();
    let b = xot.new_element(nb);
    xot.append(root, b).unwrap();
    xot.append(root, t[2]).unwrap();
    xot.append(root, t[3]).unwrap();
    if sym::choose("back_on", 2) == 1 {
        xot.set_text_consolidation(true);
    }
    let ws: Vec<bool> = texts.iter().map(|s| s.chars().all(is_xml_ws)).collect();
    let all_ws = ws.iter().all(|w| *w);
    xot.remove_insignificant_whitespace(doc);
    for k in 0..4 {
        // a whitespace-only node goes exactly when no sibling text node has other content
        sym::check("removed-exactly-the-insignificant-whitespace", xot.is_removed(t[k]) == (ws[k] && all_ws));
        if !all_ws {
            sym::check("kept-text-untouched", !xot.is_removed(t[k]) && xot.text_str(t[k]) == Some(texts[k].as_str()));
        }
    }
    sym::check("other-nodes-untouched", !xot.is_removed(b) && xot.parent(b) == Some(root));
    let before = full(&xot, doc);
    xot.remove_insignificant_whitespace(doc);
    sym::check("second-application-changes-nothing", full(&xot, doc) == before);
}
