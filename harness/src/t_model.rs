//! C05: every successful manipulation has exactly the effect a plain
//! ordered-tree model predicts.
use crate::common::kind_code;
use crate::sym;
use crate::world::*;
use xot::{Node, Xot};

pub fn register(v: &mut Vec<(&'static str, crate::Harness)>) {
    v.push(("h_c05_model", h_c05_model));
}

/// The model: ordinary children only; index = position in `nodes`.
#[derive(Clone)]
struct M {
    kind: Vec<u8>,
    parent: Vec<Option<usize>>,
    kids: Vec<Vec<usize>>,
    text: Vec<String>,
    live: Vec<bool>,
    consolidate: bool,
}

fn idx(nodes: &[Node], n: Node) -> usize {
    nodes.iter().position(|x| *x == n).unwrap()
}

fn text_of(xot: &Xot, n: Node) -> String {
    xot.text_str(n).map(|s| s.to_string()).unwrap_or_default()
}

fn model_of(xot: &Xot, nodes: &[Node], consolidate: bool) -> M {
    let mut m = M { kind: vec![], parent: vec![], kids: vec![], text: vec![], live: vec![], consolidate };
    for &n in nodes {
        m.kind.push(kind_code(xot, n));
        m.live.push(!xot.is_removed(n));
        m.text.push(text_of(xot, n));
        let k = kind_code(xot, n);
        if k == 5 || k == 6 {
            m.parent.push(None);
            m.kids.push(vec![]);
        } else {
            m.parent.push(xot.parent(n).map(|p| idx(nodes, p)));
            m.kids.push(xot.children(n).map(|c| idx(nodes, c)).collect());
        }
    }
    m
}

impl M {
    fn new_node(&mut self, kind: u8, text: String) -> usize {
        self.kind.push(kind);
        self.parent.push(None);
        self.kids.push(vec![]);
        self.text.push(text);
        self.live.push(true);
        self.kind.len() - 1
    }
    /// merge text nodes that are adjacent at position `at`/`at+1` of parent p
    fn merge_at(&mut self, p: usize, at: usize) {
        if !self.consolidate {
            return;
        }
        if at + 1 >= self.kids[p].len() {
            return;
        }
        let a = self.kids[p][at];
        let b = self.kids[p][at + 1];
        if self.kind[a] == 2 && self.kind[b] == 2 {
            let t = self.text[b].clone();
            self.text[a].push_str(&t);
            self.live[b] = false;
            self.parent[b] = None;
            self.kids[p].remove(at + 1);
        }
    }
    fn take_out(&mut self, x: usize) {
        if let Some(p) = self.parent[x] {
            let at = self.kids[p].iter().position(|c| *c == x).unwrap();
            self.kids[p].remove(at);
            self.parent[x] = None;
            if at > 0 {
                self.merge_at(p, at - 1);
            }
        }
    }
    fn put_in(&mut self, p: usize, at: usize, x: usize) {
        self.kids[p].insert(at, x);
        self.parent[x] = Some(p);
        // merge with the next first, then with the previous (positions stay valid)
        self.merge_at(p, at);
        if at > 0 {
            self.merge_at(p, at - 1);
        }
    }
    fn kill(&mut self, x: usize) {
        self.live[x] = false;
        let ks = self.kids[x].clone();
        for k in ks {
            self.kill(k);
        }
        self.kids[x].clear();
        self.parent[x] = None;
    }
    fn is_ancestor_or_self(&self, a: usize, of: usize) -> bool {
        let mut c = Some(of);
        while let Some(x) = c {
            if x == a {
                return true;
            }
            c = self.parent[x];
        }
        false
    }
}

/// content of the ordinary children of node i in the model: (kind, handle for
/// non-text, text for text)
fn model_children(m: &M, i: usize) -> Vec<(u8, usize, String)> {
    m.kids[i].iter().map(|&c| (m.kind[c], if m.kind[c] == 2 { usize::MAX } else { c }, m.text[c].clone())).collect()
}

fn real_children(xot: &Xot, nodes: &[Node], n: Node) -> Vec<(u8, usize, String)> {
    xot.children(n)
        .map(|c| {
            let k = kind_code(xot, c);
            (k, if k == 2 { usize::MAX } else { nodes.iter().position(|x| *x == c).unwrap_or(usize::MAX - 1) }, text_of(xot, c))
        })
        .collect()
}

/// merge neighbouring text entries (used when the forest had adjacent text nodes to begin with:
/// which of the pre-existing neighbours a call merges is not fixed by the property, the character
/// data and everything else is)
fn coalesce(list: Vec<(u8, usize, String)>) -> Vec<(u8, usize, String)> {
    let mut out: Vec<(u8, usize, String)> = Vec::new();
    for (k, h, t) in list {
        if k == 2 {
            if let Some(last) = out.last_mut() {
                if last.0 == 2 {
                    last.2.push_str(&t);
                    continue;
                }
            }
        }
        out.push((k, h, t));
    }
    out
}

pub fn h_c05_model() {
    let shape = sym::choose("shape", SHAPES);
    // 0: consolidation off, 1: on, 2: the forest is built with consolidation off (adjacent text
    // nodes exist) and consolidation is switched on before the call
    let mode = sym::choose("consolidate", 3);
    let consolidate = mode >= 1;
    let mut w = build(shape, mode == 1);
    if mode == 2 {
        w.xot.set_text_consolidation(true);
    }
    let nodes0 = collect_all(&w.xot, &w.nodes);
    w.nodes = nodes0;
    let mut m = model_of(&w.xot, &w.nodes, consolidate);
    let op = sym::choose("op", 11);
    let a = sym::choose("a", w.nodes.len());
    let na = w.nodes[a];
    let ka = m.kind[a];
    let mut created: Vec<(Node, usize)> = Vec::new();
    let ordinary = |k: u8| k == 1 || k == 2 || k == 3 || k == 4;
    let ok;
    if op < 5 {
        // two-node operations: a = target / reference, b = moved node
        let b = sym::choose("b", w.nodes.len());
        let nb = w.nodes[b];
        let kb = m.kind[b];
        sym::assume(ordinary(kb));
        match op {
            0 | 1 => {
                // append / prepend (a = parent)
                sym::assume(ka == 0 || ka == 1);
                sym::assume(!m.is_ancestor_or_self(b, a));
                let already = m.parent[b] == Some(a)
                    && if op == 0 { m.kids[a].last() == Some(&b) } else { m.kids[a].first() == Some(&b) };
                ok = if op == 0 { w.xot.append(na, nb).is_ok() } else { w.xot.prepend(na, nb).is_ok() };
                if !already {
                    m.take_out(b);
                    let at = if op == 0 { m.kids[a].len() } else { 0 };
                    m.put_in(a, at, b);
                }
            }
            2 | 3 => {
                // insert_after / insert_before (a = reference)
                sym::assume(ordinary(ka) && m.parent[a].is_some());
                sym::assume(a != b);
                let p = m.parent[a].unwrap();
                sym::assume(!m.is_ancestor_or_self(b, p));
                let pos_a = m.kids[p].iter().position(|c| *c == a).unwrap();
                let already = m.parent[b] == Some(p)
                    && if op == 2 { m.kids[p].get(pos_a + 1) == Some(&b) } else { pos_a > 0 && m.kids[p][pos_a - 1] == b };
                ok = if op == 2 { w.xot.insert_after(na, nb).is_ok() } else { w.xot.insert_before(na, nb).is_ok() };
                if !already {
                    // the reference may itself be merged away when b leaves: the
                    // model inserts relative to the reference's position first
                    let mut mm = m.clone();
                    mm.consolidate = false;
                    mm.take_out(b);
                    let pos = mm.kids[p].iter().position(|c| *c == a).unwrap();
                    mm.put_in(p, if op == 2 { pos + 1 } else { pos }, b);
                    mm.consolidate = consolidate;
                    // now consolidate every adjacent text pair under the two parents involved
                    let mut i = 0;
                    while i + 1 < mm.kids[p].len() {
                        let before = mm.kids[p].len();
                        mm.merge_at(p, i);
                        if mm.kids[p].len() == before {
                            i += 1;
                        }
                    }
                    if let Some(op_) = m.parent[b] {
                        if op_ != p {
                            let mut i = 0;
                            while i + 1 < mm.kids[op_].len() {
                                let before = mm.kids[op_].len();
                                mm.merge_at(op_, i);
                                if mm.kids[op_].len() == before {
                                    i += 1;
                                }
                            }
                        }
                    }
                    m = mm;
                }
            }
            _ => {
                // replace(a, b): b takes a's place, a's subtree is destroyed
                sym::assume(ordinary(ka) && m.parent[a].is_some());
                sym::assume(a != b);
                let p = m.parent[a].unwrap();
                sym::assume(!m.is_ancestor_or_self(b, p));
                sym::assume(!m.is_ancestor_or_self(a, b));
                ok = w.xot.replace(na, nb).is_ok();
                let mut mm = m.clone();
                mm.consolidate = false;
                mm.take_out(b);
                let pos = mm.kids[p].iter().position(|c| *c == a).unwrap();
                mm.kids[p][pos] = b;
                mm.parent[b] = Some(p);
                mm.kill(a);
                mm.consolidate = consolidate;
                let mut pars: Vec<usize> = vec![p];
                if let Some(q) = m.parent[b] {
                    pars.push(q);
                }
                for par in pars {
                    if !mm.live[par] {
                        continue;
                    }
                    let mut i = 0;
                    while i + 1 < mm.kids[par].len() {
                        let before = mm.kids[par].len();
                        mm.merge_at(par, i);
                        if mm.kids[par].len() == before {
                            i += 1;
                        }
                    }
                }
                m = mm;
            }
        }
    } else {
        match op {
            5 => {
                sym::assume(ordinary(ka));
                ok = w.xot.detach(na).is_ok();
                m.take_out(a);
            }
            6 => {
                sym::assume(ordinary(ka));
                ok = w.xot.remove(na).is_ok();
                let p = m.parent[a];
                m.take_out(a);
                let _ = p;
                m.kill(a);
            }
            7 => {
                // element_wrap: exactly one new element around a
                sym::assume(ordinary(ka));
                if let Some(p) = m.parent[a] {
                    sym::assume(m.kind[p] == 1 || (m.kind[p] == 0 && ka == 1 && m.kids[p].iter().filter(|c| m.kind[**c] == 1).count() == 1));
                }
                let r = w.xot.element_wrap(na, w.name_w);
                ok = r.is_ok();
                if let Ok(wn) = r {
                    let wi = m.new_node(1, String::new());
                    if let Some(p) = m.parent[a] {
                        let pos = m.kids[p].iter().position(|c| *c == a).unwrap();
                        m.kids[p][pos] = wi;
                        m.parent[wi] = Some(p);
                    }
                    m.kids[wi].push(a);
                    m.parent[a] = Some(wi);
                    created.push((wn, wi));
                }
            }
            8 => {
                // element_unwrap: children take the wrapper's place
                sym::assume(ka == 1 && m.parent[a].is_some());
                let p = m.parent[a].unwrap();
                sym::assume(m.kind[p] == 1);
                ok = w.xot.element_unwrap(na).is_ok();
                let pos = m.kids[p].iter().position(|c| *c == a).unwrap();
                let ks = m.kids[a].clone();
                m.kids[p].remove(pos);
                for (i, k) in ks.iter().enumerate() {
                    m.kids[p].insert(pos + i, *k);
                    m.parent[*k] = Some(p);
                }
                m.kids[a].clear();
                m.live[a] = false;
                m.parent[a] = None;
                let mut i = 0;
                while i + 1 < m.kids[p].len() {
                    let before = m.kids[p].len();
                    m.merge_at(p, i);
                    if m.kids[p].len() == before {
                        i += 1;
                    }
                }
            }
            9 => {
                // append_text: one new text node (or merged into the last text child)
                sym::assume(ka == 0 || ka == 1);
                let s = sym::any_string("nt", 1);
                ok = w.xot.append_text(na, &s).is_ok();
                let ti = m.new_node(2, s);
                let at = m.kids[a].len();
                m.put_in(a, at, ti);
                if m.live[ti] {
                    if let Some(last) = w.xot.last_child(na) {
                        created.push((last, ti));
                    }
                }
            }
            _ => {
                // clone_node: adds one unattached copy, nothing else changes
                let c = w.xot.clone_node(na);
                ok = true;
                sym::check("clone-is-new-handle", !w.nodes.contains(&c));
                sym::check("clone-unattached", w.xot.parent(c).is_none());
            }
        }
    }
    sym::check("call-with-satisfied-preconditions-succeeds", ok);
    if !ok {
        return;
    }
    // compare real forest with the model
    let mut all_nodes = w.nodes.clone();
    for (n, i) in &created {
        while all_nodes.len() < *i {
            all_nodes.push(*n);
        }
        if all_nodes.len() == *i {
            all_nodes.push(*n);
        }
    }
    let mut live_text_model = 0usize;
    let mut live_text_real = 0usize;
    for i in 0..w.nodes.len() {
        let n = w.nodes[i];
        let k = m.kind[i];
        if k == 5 || k == 6 {
            sym::check("special-nodes-untouched", !w.xot.is_removed(n) || !m.live[i] || op == 8 || op == 6 || op == 4);
            continue;
        }
        if k == 2 {
            if m.live[i] {
                live_text_model += 1;
            }
            if !w.xot.is_removed(n) {
                live_text_real += 1;
            }
            continue;
        }
        sym::check("liveness-of-non-text-nodes", w.xot.is_removed(n) != m.live[i]);
        if !m.live[i] || w.xot.is_removed(n) {
            continue;
        }
        let want_parent = m.parent[i];
        let got_parent = w.xot.parent(n).and_then(|p| all_nodes.iter().position(|x| *x == p));
        sym::check("parent-as-model-predicts", want_parent == got_parent);
        if k == 0 || k == 1 {
            if mode == 2 {
                sym::check("children-as-model-predicts", coalesce(real_children(&w.xot, &all_nodes, n)) == coalesce(model_children(&m, i)));
            } else {
                sym::check("children-as-model-predicts", real_children(&w.xot, &all_nodes, n) == model_children(&m, i));
            }
            // the sibling links agree with the child list (no foreign node sits in between)
            let ch: Vec<Node> = w.xot.children(n).collect();
            let mut links_ok = w.xot.first_child(n) == ch.first().copied() && w.xot.last_child(n) == ch.last().copied();
            for (j, c) in ch.iter().enumerate() {
                let want_next = ch.get(j + 1).copied();
                let want_prev = if j > 0 { Some(ch[j - 1]) } else { None };
                if w.xot.next_sibling(*c) != want_next || w.xot.previous_sibling(*c) != want_prev {
                    links_ok = false;
                }
            }
            sym::check("sibling-links-follow-the-child-list", links_ok);
        } else {
            sym::check("content-untouched", text_of(&w.xot, n) == m.text[i] || k != 3);
        }
    }
    if mode != 2 {
        sym::check("number-of-text-nodes-as-model-predicts", live_text_model == live_text_real);
    }
    for (n, i) in &created {
        if m.kind[*i] == 1 {
            sym::check("new-element-children", real_children(&w.xot, &all_nodes, *n) == model_children(&m, *i));
            let got_parent = w.xot.parent(*n).and_then(|p| all_nodes.iter().position(|x| *x == p));
            sym::check("new-element-parent", got_parent == m.parent[*i]);
        }
    }
}
