//! C09: namespace scope queries against nearest-declaration-wins scoping.
use crate::sym;
use xot::xmlname::NameStrInfo;
use xot::{NameId, NamespaceId, Node, PrefixId, Xot};

pub fn register(v: &mut Vec<(&'static str, crate::Harness)>) {
    v.push(("h_c09_scope", h_c09_scope));
    v.push(("h_c09_loose", h_c09_loose));
}

pub struct Ids {
    pub empty: PrefixId,
    pub p: PrefixId,
    pub q: PrefixId,
    pub none: NamespaceId,
    pub a: NamespaceId,
    pub b: NamespaceId,
}

pub fn ids(xot: &mut Xot) -> Ids {
    Ids {
        empty: xot.empty_prefix(),
        p: xot.add_prefix("p"),
        q: xot.add_prefix("q"),
        none: xot.no_namespace(),
        a: xot.add_namespace("urn:a"),
        b: xot.add_namespace("urn:b"),
    }
}

pub const CONFIGS: usize = 8;

/// declaration layouts of one element
pub fn config(i: &Ids, c: usize) -> Vec<(PrefixId, NamespaceId)> {
    match c {
        0 => vec![],
        1 => vec![(i.p, i.a)],
        2 => vec![(i.p, i.b)],
        3 => vec![(i.empty, i.a)],
        4 => vec![(i.empty, i.none)],
        5 => vec![(i.p, i.a), (i.q, i.a)],
        6 => vec![(i.q, i.b), (i.empty, i.a)],
        7 => vec![(i.q, i.a), (i.p, i.b)],
        // (only used where a harness asks for CONFIGS + 1 layouts) default declaration first, then a prefix for the same namespace
        _ => vec![(i.empty, i.a), (i.q, i.a)],
    }
}

/// nearest-declaration-wins scope at the bottom of a chain of declaration
/// lists (outermost first); xmlns="" removes the default binding
pub fn scope(i: &Ids, xml: (PrefixId, NamespaceId), chain: &[Vec<(PrefixId, NamespaceId)>]) -> Vec<(PrefixId, NamespaceId)> {
    let mut out: Vec<(PrefixId, NamespaceId)> = vec![xml];
    for decls in chain {
        for (p, ns) in decls {
            let mut k = 0;
            while k < out.len() {
                if out[k].0 == *p {
                    out.remove(k);
                } else {
                    k += 1;
                }
            }
            if !(*p == i.empty && *ns == i.none) {
                out.push((*p, *ns));
            }
        }
    }
    out
}

fn lookup(sc: &[(PrefixId, NamespaceId)], p: PrefixId) -> Option<NamespaceId> {
    sc.iter().find(|(pp, _)| *pp == p).map(|(_, n)| *n)
}

pub fn h_c09_scope() {
    let mut xot = Xot::new();
    let i = ids(&mut xot);
    let xml = (xot.xml_prefix(), xot.xml_namespace());
    let c0 = sym::choose("c0", CONFIGS);
    let c1 = sym::choose("c1", sym::param("NC1", CONFIGS));
    let c2 = sym::choose("c2", CONFIGS + 1);
    let chain = vec![config(&i, c0), config(&i, c1), config(&i, c2)];
    // names: the innermost element's name and one attribute on it
    let el_ns = [i.none, i.a, i.b][sym::choose("elns", 3)];
    let at_ns = [i.none, i.a][sym::choose("atns", 2)];
    let n_plain = xot.add_name("e");
    let n_el = xot.add_name_ns("e", el_ns);
    let n_at = xot.add_name_ns("t", at_ns);
    let e0 = xot.new_element(n_plain);
    let e1 = xot.new_element(n_plain);
    let e2 = xot.new_element(n_el);
    xot.append(e0, e1).unwrap();
    xot.append(e1, e2).unwrap();
    for (el, decls) in [e0, e1, e2].iter().zip(chain.iter()) {
        for (p, ns) in decls {
            xot.set_namespace(*el, *p, *ns);
        }
    }
    xot.set_attribute(e2, n_at, "v");
    // an attribute in the xml namespace: its prefix is always bound
    let n_lang = xot.add_name_ns("lang", xml.1);
    xot.set_attribute(e2, n_lang, "en");
    let txt = xot.new_text("x");
    xot.append(e2, txt).unwrap();
    let attr_node = xot.attributes(e2).nodes().next().unwrap();
    // the node the queries are asked from
    let which = sym::choose("node", 4);
    let (node, depth) = match which {
        0 => (e2, 3),
        1 => (txt, 3),
        2 => (attr_node, 3),
        _ => (e1, 2),
    };
    let sc = scope(&i, xml, &chain[..depth]);
    // namespace_for_prefix
    for p in [i.empty, i.p, i.q, xml.0] {
        sym::check("namespace-for-prefix", xot.namespace_for_prefix(node, p) == lookup(&sc, p));
    }
    // prefix_for_namespace: some prefix bound to ns whenever one exists
    for ns in [i.a, i.b, xml.1] {
        let bound = sc.iter().any(|(_, n)| *n == ns);
        match xot.prefix_for_namespace(node, ns) {
            Some(p) => sym::check("prefix-for-namespace-is-bound-to-it", lookup(&sc, p) == Some(ns)),
            None => sym::check("prefix-for-namespace-none-only-if-unbound", !bound),
        }
    }
    // is_prefix_defined for the real prefixes
    for p in [i.p, i.q, xml.0] {
        sym::check("is-prefix-defined", xot.is_prefix_defined(node, p) == lookup(&sc, p).is_some());
    }
    // namespaces_in_scope: exactly the reference bindings
    let got: Vec<(PrefixId, NamespaceId)> = xot.namespaces_in_scope(node).collect();
    sym::check("namespaces-in-scope-size", got.len() == sc.len());
    for (p, ns) in &sc {
        sym::check("namespaces-in-scope-contains", got.iter().any(|(pp, nn)| pp == p && nn == ns));
    }
    // qualified names: the reported prefix resolves back to the expanded name
    if which == 0 {
        let ns = el_ns;
        match xot.node_name_ref(e2) {
            Ok(Some(r)) => {
                let p = r.prefix_id();
                if ns == i.none {
                    // unprefixed: must not be captured by a default namespace... (see C10); here: prefix is empty
                    sym::check("element-no-namespace-unprefixed", p == i.empty);
                } else {
                    sym::check("element-name-prefix-resolves", lookup(&sc, p) == Some(ns));
                }
                sym::check("name-ref-namespace", r.namespace_id() == ns);
            }
            Ok(None) => sym::check("element-has-name", false),
            Err(_) => sym::check("element-name-error-only-if-unbound", ns != i.none && !sc.iter().any(|(_, n)| *n == ns)),
        }
        match xot.full_name(e2, n_el) {
            Ok(s) => {
                let want_prefixes: Vec<PrefixId> = sc.iter().filter(|(_, n)| *n == ns).map(|(p, _)| *p).collect();
                let mut ok = false;
                if ns == i.none {
                    ok = s == "e";
                }
                for p in want_prefixes {
                    let ps = xot.prefix_str(p);
                    let cand = if ps.is_empty() { "e".to_string() } else { format!("{}:e", ps) };
                    if cand == s {
                        ok = true;
                    }
                }
                sym::check("full-name-uses-a-bound-prefix", ok);
            }
            Err(_) => sym::check("full-name-error-only-if-unbound", ns != i.none && !sc.iter().any(|(_, n)| *n == ns)),
        }
    }
    if which == 2 {
        // attribute: never via the default binding
        let ns = at_ns;
        let usable = sc.iter().any(|(p, n)| *n == ns && *p != i.empty);
        match xot.node_name_ref(attr_node) {
            Ok(Some(r)) => {
                let p = r.prefix_id();
                if ns == i.none {
                    sym::check("attribute-no-namespace-unprefixed", p == i.empty);
                } else {
                    sym::check("attribute-name-prefix-resolves", p != i.empty && lookup(&sc, p) == Some(ns));
                }
            }
            Ok(None) => sym::check("attribute-has-name", false),
            Err(_) => sym::check("attribute-name-error-only-if-no-usable-prefix", ns != i.none && !usable),
        }
    }
    if which == 2 {
        let lang_node = xot.attributes(e2).get_node(n_lang).unwrap();
        match xot.node_name_ref(lang_node) {
            Ok(Some(r)) => sym::check("xml-attribute-uses-the-xml-prefix", r.prefix_id() == xml.0),
            _ => sym::check("xml-attribute-uses-the-xml-prefix", false),
        }
    }
    // unresolved namespaces of the innermost element and inherited prefixes
    if which == 0 {
        let own = scope(&i, xml, &chain[2..3]);
        let mut need: Vec<NamespaceId> = Vec::new();
        if el_ns != i.none && !own.iter().any(|(_, n)| *n == el_ns) {
            need.push(el_ns);
        }
        // an attribute name needs a non-empty prefix (the default binding never applies to attributes), so a
        // namespace that the element itself only binds as default is still unresolved for its attribute
        if at_ns != i.none && !own.iter().any(|(p, n)| *n == at_ns && *p != i.empty) && !need.contains(&at_ns) {
            need.push(at_ns);
        }
        let may_need_attr = at_ns != i.none && !own.iter().any(|(p, n)| *n == at_ns && *p != i.empty);
        // asked from the ancestors: what the declarations between that ancestor and the
        // innermost element (inclusive) leave unbound
        for (x, from) in [(e0, 0usize), (e1, 1usize)] {
            let sc_x = scope(&i, xml, &chain[from..3]);
            let got = xot.unresolved_namespaces(x);
            if el_ns != i.none {
                let bound = sc_x.iter().any(|(_, n)| *n == el_ns);
                sym::check("unresolved-namespaces-from-ancestor", got.contains(&el_ns) == !bound || (at_ns == el_ns));
            }
            if at_ns != i.none && !sc_x.iter().any(|(p, n)| *n == at_ns && *p != i.empty) {
                sym::check("unresolved-namespaces-from-ancestor-attribute", got.contains(&at_ns));
            }
            for ns in &got {
                let el_unbound = *ns == el_ns && !sc_x.iter().any(|(_, n)| n == ns);
                let at_unusable = *ns == at_ns && !sc_x.iter().any(|(p, n)| n == ns && *p != i.empty);
                sym::check("unresolved-namespaces-from-ancestor-only-needed", *ns == i.none || el_unbound || at_unusable);
            }
        }
        let unresolved = xot.unresolved_namespaces(e2);
        for ns in &need {
            sym::check("unresolved-namespaces-contains-needed", unresolved.contains(ns));
        }
        for ns in &unresolved {
            sym::check("unresolved-namespaces-only-needed", *ns == i.none || need.contains(ns) || (may_need_attr && *ns == at_ns));
        }
        let parent_scope = scope(&i, xml, &chain[..2]);
        let inherited = xot.inherited_prefixes(e2);
        for (p, ns) in inherited.iter() {
            sym::check("inherited-prefix-in-parent-scope", lookup(&parent_scope, *p) == Some(*ns));
            sym::check("inherited-prefix-is-needed", unresolved.contains(ns));
        }
        for ns in &need {
            let available = parent_scope.iter().any(|(_, n)| n == ns);
            if available {
                sym::check("inherited-prefixes-cover-needed", inherited.iter().any(|(_, n)| n == ns));
            }
        }
    }
}

/// nodes without a parent (and a document node): only the xml prefix is in scope
pub fn h_c09_loose() {
    let mut xot = Xot::new();
    let i = ids(&mut xot);
    let xml = (xot.xml_prefix(), xot.xml_namespace());
    let n = xot.add_name("e");
    let doc_el = xot.new_element(n);
    xot.set_namespace(doc_el, i.p, i.a);
    let node = match sym::choose("what", 7) {
        0 => xot.new_text("t"),
        1 => xot.new_comment("c"),
        2 => xot.new_processing_instruction(n, None),
        3 => xot.new_attribute_node(n, "v".to_string()),
        4 => xot.new_namespace_node(i.p, i.a),
        5 => xot.new_document_with_element(doc_el).unwrap(),
        _ => xot.new_element(n),
    };
    sym::check("xml-prefix-always-bound", xot.namespace_for_prefix(node, xml.0) == Some(xml.1));
    sym::check("xml-prefix-defined", xot.is_prefix_defined(node, xml.0));
    sym::check("xml-namespace-has-the-xml-prefix", xot.prefix_for_namespace(node, xml.1) == Some(xml.0));
    sym::check("other-prefix-unbound", xot.namespace_for_prefix(node, i.p).is_none() && !xot.is_prefix_defined(node, i.q));
    let got: Vec<(PrefixId, NamespaceId)> = xot.namespaces_in_scope(node).collect();
    sym::check("only-xml-in-scope", got.len() == 1 && got[0] == xml);
}
