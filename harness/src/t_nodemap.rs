//! C11: attribute and namespace views as insertion-ordered maps.
use crate::sym;
use xot::{NameId, NamespaceId, Node, PrefixId, Xot};

pub fn register(v: &mut Vec<(&'static str, crate::Harness)>) {
    v.push(("h_c11_attrs", h_c11_attrs));
    v.push(("h_c11_namespaces", h_c11_namespaces));
}

fn one(name: &'static str) -> String {
    sym::any_string(name, 1)
}

fn check_attr_views(xot: &mut Xot, el: Node, keys: &[NameId], reference: &[(NameId, String)]) {
    // read-only view
    {
        let v = xot.attributes(el);
        sym::check("ro-len", v.len() == reference.len());
        sym::check("ro-is-empty", v.is_empty() == reference.is_empty());
        let it: Vec<(NameId, String)> = v.iter().map(|(k, s)| (k, s.clone())).collect();
        sym::check("ro-iter", it.as_slice() == reference);
        let ks: Vec<NameId> = v.keys().collect();
        sym::check("ro-keys", ks == reference.iter().map(|(k, _)| *k).collect::<Vec<_>>());
        let vs: Vec<String> = v.values().cloned().collect();
        sym::check("ro-values", vs == reference.iter().map(|(_, s)| s.clone()).collect::<Vec<_>>());
        sym::check("ro-to-vec", v.to_vec().as_slice() == reference);
        let nodes: Vec<Node> = v.nodes().collect();
        sym::check("ro-nodes-len", nodes.len() == reference.len());
        let hm = v.to_hashmap();
        sym::check("ro-to-hashmap-len", hm.len() == reference.len());
        for &k in keys {
            let want = reference.iter().find(|(kk, _)| *kk == k).map(|(_, s)| s.clone());
            sym::check("ro-contains-key", v.contains_key(k) == want.is_some());
            sym::check("ro-get", v.get(k).cloned() == want);
            sym::check("ro-get-node", v.get_node(k).is_some() == want.is_some());
            sym::check("ro-to-hashmap-get", hm.get(&k).cloned() == want);
            if let Some(n) = v.get_node(k) {
                let pos = reference.iter().position(|(kk, _)| *kk == k).unwrap();
                sym::check("ro-get-node-position", nodes[pos] == n);
            }
        }
    }
    sym::check("get-attribute", keys.iter().all(|k| xot.get_attribute(el, *k).map(|s| s.to_string()) == reference.iter().find(|(kk, _)| kk == k).map(|(_, s)| s.clone())));
    // mutable view
    let v = xot.attributes_mut(el);
    sym::check("rw-len", v.len() == reference.len());
    sym::check("rw-is-empty", v.is_empty() == reference.is_empty());
    let it: Vec<(NameId, String)> = v.iter().map(|(k, s)| (k, s.clone())).collect();
    sym::check("rw-iter", it.as_slice() == reference);
    let ks: Vec<NameId> = v.keys().collect();
    sym::check("rw-keys", ks == reference.iter().map(|(k, _)| *k).collect::<Vec<_>>());
    let vs: Vec<String> = v.values().cloned().collect();
    sym::check("rw-values", vs == reference.iter().map(|(_, s)| s.clone()).collect::<Vec<_>>());
    sym::check("rw-to-vec", v.to_vec().as_slice() == reference);
    sym::check("rw-nodes-len", v.nodes().count() == reference.len());
    sym::check("rw-to-hashmap-len", v.to_hashmap().len() == reference.len());
    for &k in keys {
        let want = reference.iter().find(|(kk, _)| *kk == k).map(|(_, s)| s.clone());
        sym::check("rw-contains-key", v.contains_key(k) == want.is_some());
        sym::check("rw-get", v.get(k).cloned() == want);
        sym::check("rw-get-node", v.get_node(k).is_some() == want.is_some());
    }
}

fn drop_key<K: PartialEq + Copy, V>(r: &mut Vec<(K, V)>, k: K) {
    let mut i = 0;
    while i < r.len() {
        if r[i].0 == k {
            r.remove(i);
        } else {
            i += 1;
        }
    }
}

fn ref_set(reference: &mut Vec<(NameId, String)>, k: NameId, v: String) {
    if let Some(e) = reference.iter_mut().find(|(kk, _)| *kk == k) {
        e.1 = v;
    } else {
        reference.push((k, v));
    }
}

pub fn h_c11_attrs() {
    let mut xot = Xot::new();
    let name = xot.add_name("a");
    let keys = [xot.add_name("x"), xot.add_name("y"), xot.add_name("w")];
    let p = xot.add_prefix("p");
    let ns = xot.add_namespace("urn:1");
    let el = xot.new_element(name);
    // some namespace declarations that attribute updates must not disturb
    let nn = sym::choose("nn", 3);
    if nn >= 1 {
        xot.set_namespace(el, p, ns);
    }
    if nn >= 2 {
        let e = xot.empty_prefix();
        xot.set_namespace(el, e, ns);
    }
    let child = xot.new_element(name);
    xot.append(el, child).unwrap();
    let mut reference: Vec<(NameId, String)> = Vec::new();
    let na = sym::choose("na", 3);
    if na >= 1 {
        let v = one("i0");
        xot.set_attribute(el, keys[0], v.clone());
        reference.push((keys[0], v));
    }
    if na >= 2 {
        let v = one("i1");
        xot.set_attribute(el, keys[1], v.clone());
        reference.push((keys[1], v));
    }
    let steps = sym::param("STEPS", 1);
    for step in 0..steps {
        let (opn, kn, vn) = if step == 0 { ("op", "k", "v") } else { ("op2", "k2", "v2") };
        let op = sym::choose(opn, 16);
        let k = keys[sym::choose(kn, 3)];
        let v = one(vn);
        let node_before = xot.attributes(el).get_node(k);
        let had = reference.iter().any(|(kk, _)| *kk == k);
        match op {
            0 => {
                let old = xot.attributes_mut(el).insert(k, v.clone());
                let want_old = reference.iter().find(|(kk, _)| *kk == k).map(|(_, s)| s.clone());
                sym::check("insert-returns-old", old == want_old);
                ref_set(&mut reference, k, v);
            }
            1 => {
                let old = xot.attributes_mut(el).remove(k);
                let want_old = reference.iter().find(|(kk, _)| *kk == k).map(|(_, s)| s.clone());
                sym::check("remove-returns-old", old == want_old);
                drop_key(&mut reference, k);
            }
            2 => {
                if let Some(slot) = xot.attributes_mut(el).get_mut(k) {
                    *slot = v.clone();
                    sym::check("get-mut-some-iff-present", had);
                    ref_set(&mut reference, k, v);
                } else {
                    sym::check("get-mut-none-iff-absent", !had);
                }
            }
            3 => {
                xot.attributes_mut(el).entry(k).or_insert(v.clone());
                if !had {
                    reference.push((k, v));
                }
            }
            4 => {
                let v2 = v.clone();
                xot.attributes_mut(el).entry(k).and_modify(|s| *s = v2).or_insert(v.clone());
                ref_set(&mut reference, k, v);
            }
            5 => {
                xot.attributes_mut(el).clear();
                reference.clear();
            }
            6 => {
                xot.set_attribute(el, k, v.clone());
                ref_set(&mut reference, k, v);
            }
            7 => {
                xot.remove_attribute(el, k);
                drop_key(&mut reference, k);
            }
            8 => {
                let n = xot.new_attribute_node(k, v.clone());
                xot.append_attribute_node(el, n).unwrap();
                ref_set(&mut reference, k, v);
            }
            9 => {
                let n = xot.new_attribute_node(k, v.clone());
                xot.any_append(el, n).unwrap();
                ref_set(&mut reference, k, v);
            }
            10 => {
                if let Some(n) = node_before {
                    xot.detach(n).unwrap();
                    drop_key(&mut reference, k);
                }
            }
            11 => {
                if let Some(n) = node_before {
                    xot.remove(n).unwrap();
                    drop_key(&mut reference, k);
                }
            }
            12 => {
                // re-append a node that already is an entry of this element: keeps value and position
                if let Some(n) = node_before {
                    xot.append_attribute_node(el, n).unwrap();
                }
            }
            13 => {
                if let Some(n) = node_before {
                    xot.any_append(el, n).unwrap();
                }
            }
            14 => {
                // the entry API with explicit occupied / vacant handling
                match xot.attributes_mut(el).entry(k) {
                    xot::Entry::Occupied(mut e) => {
                        sym::check("entry-occupied-iff-present", had);
                        let want_old = reference.iter().find(|(kk, _)| *kk == k).map(|(_, s)| s.clone());
                        sym::check("occupied-get", Some(e.get().clone()) == want_old);
                        let old = e.insert(v.clone());
                        sym::check("occupied-insert-returns-old", Some(old) == want_old);
                    }
                    xot::Entry::Vacant(e) => {
                        sym::check("entry-vacant-iff-absent", !had);
                        e.insert(v.clone());
                    }
                }
                ref_set(&mut reference, k, v);
            }
            _ => {
                match xot.attributes_mut(el).entry(k) {
                    xot::Entry::Occupied(e) => {
                        let want_old = reference.iter().find(|(kk, _)| *kk == k).map(|(_, s)| s.clone());
                        let old = e.remove();
                        sym::check("occupied-remove-returns-old", Some(old) == want_old);
                        drop_key(&mut reference, k);
                    }
                    xot::Entry::Vacant(e) => {
                        sym::check("entry-vacant-iff-absent", !had && *e.key() == k);
                    }
                }
            }
        }
        // updating an existing key keeps its node
        if had && (op == 0 || op == 2 || op == 3 || op == 4 || op == 6 || op == 8 || op == 9 || op == 12 || op == 13 || op == 14) {
            sym::check("update-keeps-node", xot.attributes(el).get_node(k) == node_before);
        }
        check_attr_views(&mut xot, el, &keys, &reference);
        // the namespace view and the children are untouched
        sym::check("namespaces-untouched", xot.namespaces(el).len() == nn);
        sym::check("children-untouched", xot.children(el).count() == 1 && xot.first_child(el) == Some(child));
    }
}

fn check_ns_views(xot: &mut Xot, el: Node, keys: &[PrefixId], reference: &[(PrefixId, NamespaceId)]) {
    {
        let v = xot.namespaces(el);
        sym::check("ro-len", v.len() == reference.len());
        sym::check("ro-is-empty", v.is_empty() == reference.is_empty());
        let it: Vec<(PrefixId, NamespaceId)> = v.iter().map(|(k, s)| (k, *s)).collect();
        sym::check("ro-iter", it.as_slice() == reference);
        sym::check("ro-to-vec", v.to_vec().as_slice() == reference);
        sym::check("ro-nodes-len", v.nodes().count() == reference.len());
        sym::check("ro-to-hashmap-len", v.to_hashmap().len() == reference.len());
        for &k in keys {
            let want = reference.iter().find(|(kk, _)| *kk == k).map(|(_, s)| *s);
            sym::check("ro-contains-key", v.contains_key(k) == want.is_some());
            sym::check("ro-get", v.get(k).copied() == want);
            sym::check("ro-get-node", v.get_node(k).is_some() == want.is_some());
        }
    }
    sym::check("get-namespace", keys.iter().all(|k| xot.get_namespace(el, *k) == reference.iter().find(|(kk, _)| kk == k).map(|(_, s)| *s)));
    let v = xot.namespaces_mut(el);
    sym::check("rw-len", v.len() == reference.len());
    sym::check("rw-is-empty", v.is_empty() == reference.is_empty());
    let it: Vec<(PrefixId, NamespaceId)> = v.iter().map(|(k, s)| (k, *s)).collect();
    sym::check("rw-iter", it.as_slice() == reference);
    sym::check("rw-to-vec", v.to_vec().as_slice() == reference);
    for &k in keys {
        let want = reference.iter().find(|(kk, _)| *kk == k).map(|(_, s)| *s);
        sym::check("rw-contains-key", v.contains_key(k) == want.is_some());
        sym::check("rw-get", v.get(k).copied() == want);
    }
}

pub fn h_c11_namespaces() {
    let mut xot = Xot::new();
    let name = xot.add_name("a");
    let x = xot.add_name("x");
    let e = xot.empty_prefix();
    let keys = [xot.add_prefix("p"), xot.add_prefix("q"), e];
    let nss = [xot.add_namespace("urn:1"), xot.add_namespace("urn:2")];
    let el = xot.new_element(name);
    let mut reference: Vec<(PrefixId, NamespaceId)> = Vec::new();
    let nn = sym::choose("nn", 3);
    if nn >= 1 {
        xot.set_namespace(el, keys[0], nss[0]);
        reference.push((keys[0], nss[0]));
    }
    if nn >= 2 {
        xot.set_namespace(el, keys[1], nss[1]);
        reference.push((keys[1], nss[1]));
    }
    let na = sym::choose("na", 2);
    if na == 1 {
        xot.set_attribute(el, x, "v");
    }
    let steps = sym::param("STEPS", 1);
    for step in 0..steps {
        let (opn, kn, vn) = if step == 0 { ("op", "k", "v") } else { ("op2", "k2", "v2") };
        let op = sym::choose(opn, 10);
        let k = keys[sym::choose(kn, 3)];
        let v = nss[sym::choose(vn, 2)];
        let node_before = xot.namespaces(el).get_node(k);
        let had = reference.iter().any(|(kk, _)| *kk == k);
        let set = |r: &mut Vec<(PrefixId, NamespaceId)>| {
            if let Some(e) = r.iter_mut().find(|(kk, _)| *kk == k) {
                e.1 = v;
            } else {
                r.push((k, v));
            }
        };
        match op {
            0 => {
                xot.namespaces_mut(el).insert(k, v);
                set(&mut reference);
            }
            1 => {
                xot.namespaces_mut(el).remove(k);
                drop_key(&mut reference, k);
            }
            2 => {
                xot.namespaces_mut(el).clear();
                reference.clear();
            }
            3 => {
                xot.set_namespace(el, k, v);
                set(&mut reference);
            }
            4 => {
                xot.remove_namespace(el, k);
                drop_key(&mut reference, k);
            }
            5 => {
                let n = xot.new_namespace_node(k, v);
                xot.append_namespace_node(el, n).unwrap();
                set(&mut reference);
            }
            6 => {
                let n = xot.new_namespace_node(k, v);
                xot.any_append(el, n).unwrap();
                set(&mut reference);
            }
            7 => {
                if let Some(n) = node_before {
                    xot.detach(n).unwrap();
                    drop_key(&mut reference, k);
                }
            }
            8 => {
                if let Some(n) = node_before {
                    xot.append_namespace_node(el, n).unwrap();
                }
            }
            _ => {
                xot.namespaces_mut(el).entry(k).or_insert(v);
                if !had {
                    reference.push((k, v));
                }
            }
        }
        if had && (op == 0 || op == 3 || op == 5 || op == 6 || op == 8 || op == 9) {
            sym::check("update-keeps-node", xot.namespaces(el).get_node(k) == node_before);
        }
        check_ns_views(&mut xot, el, &keys, &reference);
        sym::check("attributes-untouched", xot.attributes(el).len() == na);
    }
}
