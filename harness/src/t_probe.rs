//! T tier probe
use crate::sym;
use xot::Xot;

pub fn register(v: &mut Vec<(&'static str, crate::Harness)>) {
    v.push(("h_probe_tree", h_probe_tree));
    v.push(("h_probe_parse", h_probe_parse));
    v.push(("h_probe_tostring", h_probe_tostring));
    v.push(("h_probe_html", h_probe_html));
    v.push(("h_probe_bytes", h_probe_bytes));
}

pub fn h_probe_tree() {
    let mut xot = Xot::new();
    let name = xot.add_name("a");
    let el = xot.new_element(name);
    let t = sym::any_string("t", 1);
    let txt = xot.new_text(&t);
    xot.append(el, txt).unwrap();
    let fc = xot.first_child(el);
    sym::check("first-child", fc == Some(txt));
    sym::check("text", xot.text_str(txt) == Some(t.as_str()));
    sym::check("parent", xot.parent(txt) == Some(el));
}

pub fn h_probe_tostring() {
    let mut xot = Xot::new();
    let name = xot.add_name("a");
    let el = xot.new_element(name);
    let t = sym::any_string("t", 1);
    let txt = xot.new_text(&t);
    xot.append(el, txt).unwrap();
    let s = xot.to_string(el).unwrap();
    sym::emit_str("out", &s);
    sym::check("starts", s.starts_with("<a>"));
}

pub fn h_probe_parse() {
    let mut xot = Xot::new();
    let t = sym::any_string("t", 1);
    let mut src = String::from("<a>");
    src.push_str(&t);
    src.push_str("</a>");
    match xot.parse(&src) {
        Ok(doc) => {
            let el = xot.document_element(doc).unwrap();
            let s = xot.string_value(el);
            sym::emit_str("sv", &s);
            sym::cover("parsed");
        }
        Err(_) => sym::cover("rejected"),
    }
}

pub fn h_probe_html() {
    let mut xot = Xot::new();
    let name = xot.add_name("Br");
    let el = xot.new_element(name);
    let t = sym::any_string("t", 1);
    let txt = xot.new_text(&t);
    xot.append(el, txt).unwrap();
    let s = xot.html5().to_string(el).unwrap();
    sym::emit_str("out", &s);
    sym::check("starts", s.starts_with("<!DOCTYPE html>"));
}

pub fn h_probe_bytes() {
    let mut xot = Xot::new();
    let n = sym::choose("len", 6);
    let mut v: Vec<u8> = Vec::new();
    const NAMES: [&str; 5] = ["b0", "b1", "b2", "b3", "b4"];
    for i in 0..n {
        v.push(sym::any_u8(NAMES[i]));
    }
    match xot.parse_bytes(&v) {
        Ok(_) => sym::cover("parsed"),
        Err(_) => sym::cover("rejected"),
    }
}
