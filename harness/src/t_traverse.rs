//! C07: axes and traversals against lists computed from parent/children.
use crate::common::kind_code;
use crate::sym;
use crate::world::*;
use xot::{Axis, Node, NodeEdge, Xot};

pub fn register(v: &mut Vec<(&'static str, crate::Harness)>) {
    v.push(("h_c07_axes", h_c07_axes));
    v.push(("h_c07_all", h_c07_all));
}

fn kids(xot: &Xot, n: Node) -> Vec<Node> {
    xot.children(n).collect()
}

/// preorder of ordinary nodes below (and including) n, from children() only
fn preorder(xot: &Xot, n: Node, out: &mut Vec<Node>) {
    out.push(n);
    for c in kids(xot, n) {
        preorder(xot, c, out);
    }
}

/// preorder including namespace and attribute nodes: element, its
/// namespaces, its attributes, its children
fn all_preorder(xot: &Xot, n: Node, out: &mut Vec<Node>) {
    out.push(n);
    if xot.is_element(n) {
        out.extend(xot.namespaces(n).nodes());
        out.extend(xot.attributes(n).nodes());
    }
    for c in kids(xot, n) {
        all_preorder(xot, c, out);
    }
}

fn top_of(xot: &Xot, n: Node) -> Node {
    let mut t = n;
    while let Some(p) = xot.parent(t) {
        t = p;
    }
    t
}

fn eq_list(label: &'static str, got: Vec<Node>, want: &[Node]) {
    sym::check(label, got.as_slice() == want);
}

/// extra shapes for traversal: a fan and a deep chain with mixed leaves
pub const TSHAPES: usize = SHAPES + 2;

fn build_tree(shape: usize) -> World {
    if shape < SHAPES {
        return build(shape, true);
    }
    if shape == SHAPES + 1 {
        // <a><b><c x=".." xmlns:p=".."/></b><w/>text<!--c--></a> under a document:
        // the rightmost-deepest node of a preceding subtree is a childless
        // element that only has attribute / namespace nodes
        let mut w = build(4, true);
        let a = w.xot.new_element(w.name_a);
        let d = w.xot.new_document_with_element(a).unwrap();
        let b = w.xot.new_element(w.name_b);
        let c = w.xot.new_element(w.name_a);
        w.xot.append(a, b).unwrap();
        w.xot.append(b, c).unwrap();
        w.xot.set_namespace(c, w.pfx_p, w.ns_1);
        w.xot.set_attribute(c, w.attr_x, "v");
        let e = w.xot.new_element(w.name_w);
        w.xot.append(a, e).unwrap();
        w.xot.append_text(a, "t").unwrap();
        w.xot.append_comment(a, "k").unwrap();
        w.nodes = vec![d, a, b, c, e];
        return w;
    }
    let mut w = build(4, true);
    // extend shape 4 (chain a/b/a/text) with a fan under the root
    let root = w.nodes[0];
    let e1 = w.xot.new_element(w.name_w);
    let e2 = w.xot.new_element(w.name_w);
    let e3 = w.xot.new_element(w.name_b);
    w.xot.append(root, e1).unwrap();
    w.xot.append(root, e2).unwrap();
    w.xot.append(e2, e3).unwrap();
    w.xot.set_attribute(e2, w.attr_x, "v");
    w.xot.set_namespace(e2, w.pfx_p, w.ns_1);
    let an = w.xot.attributes(e2).nodes().next().unwrap();
    let nn = w.xot.namespaces(e2).nodes().next().unwrap();
    w.nodes.extend([e1, e2, e3, an, nn]);
    w
}

pub fn h_c07_axes() {
    let shape = sym::choose("shape", TSHAPES);
    let w = build_tree(shape);
    let xot = &w.xot;
    let all = collect_all(xot, &w.nodes);
    let n = all[sym::choose("n", all.len())];
    let k = kind_code(xot, n);
    sym::assume(k != 5 && k != 6);
    let top = top_of(xot, n);
    let mut doc_order = Vec::new();
    preorder(xot, top, &mut doc_order);
    let pos = doc_order.iter().position(|x| *x == n).unwrap();
    // expected sets
    let mut anc = Vec::new(); // strict ancestors, nearest first
    let mut c = xot.parent(n);
    while let Some(p) = c {
        anc.push(p);
        c = xot.parent(p);
    }
    let mut desc_self = Vec::new();
    preorder(xot, n, &mut desc_self);
    let desc: Vec<Node> = desc_self[1..].to_vec();
    let following: Vec<Node> = doc_order[pos + desc_self.len()..].to_vec();
    let mut preceding: Vec<Node> = doc_order[..pos].iter().copied().filter(|x| !anc.contains(x)).collect();
    preceding.reverse();
    // partition: every node of the tree is in exactly one of the five sets
    sym::check("partition-size", anc.len() + desc.len() + preceding.len() + following.len() + 1 == doc_order.len());
    // the APIs
    let mut anc_self = vec![n];
    anc_self.extend(anc.iter().copied());
    eq_list("ancestors", xot.ancestors(n).collect(), &anc_self);
    eq_list("axis-ancestor", xot.axis(Axis::Ancestor, n).collect(), &anc);
    eq_list("axis-ancestor-or-self", xot.axis(Axis::AncestorOrSelf, n).collect(), &anc_self);
    eq_list("descendants", xot.descendants(n).collect(), &desc_self);
    eq_list("axis-descendant", xot.axis(Axis::Descendant, n).collect(), &desc);
    eq_list("axis-descendant-or-self", xot.axis(Axis::DescendantOrSelf, n).collect(), &desc_self);
    eq_list("following", xot.following(n).collect(), &following);
    eq_list("axis-following", xot.axis(Axis::Following, n).collect(), &following);
    eq_list("preceding", xot.preceding(n).collect(), &preceding);
    eq_list("axis-preceding", xot.axis(Axis::Preceding, n).collect(), &preceding);
    eq_list("axis-self", xot.axis(Axis::Self_, n).collect(), &[n]);
    let ch = kids(xot, n);
    eq_list("axis-child", xot.axis(Axis::Child, n).collect(), &ch);
    sym::check("first-child", xot.first_child(n) == ch.first().copied());
    sym::check("last-child", xot.last_child(n) == ch.last().copied());
    for (i, c) in ch.iter().enumerate() {
        sym::check("child-index", xot.child_index(n, *c) == Some(i));
        sym::check("next-sibling", xot.next_sibling(*c) == ch.get(i + 1).copied());
        sym::check("previous-sibling", xot.previous_sibling(*c) == if i > 0 { Some(ch[i - 1]) } else { None });
    }
    sym::check("child-index-of-non-child", xot.child_index(n, top) == None || xot.parent(top) == Some(n));
    // siblings of n
    let sibs: Vec<Node> = match xot.parent(n) {
        Some(p) => kids(xot, p),
        None => vec![n],
    };
    let si = sibs.iter().position(|x| *x == n).unwrap();
    eq_list("following-siblings", xot.following_siblings(n).collect(), &sibs[si..]);
    eq_list("axis-following-sibling", xot.axis(Axis::FollowingSibling, n).collect(), &sibs[si + 1..]);
    let mut pre_sibs: Vec<Node> = sibs[..=si].to_vec();
    pre_sibs.reverse();
    eq_list("preceding-siblings", xot.preceding_siblings(n).collect(), &pre_sibs);
    eq_list("axis-preceding-sibling", xot.axis(Axis::PrecedingSibling, n).collect(), &pre_sibs[1..]);
    eq_list("axis-parent", xot.axis(Axis::Parent, n).collect(), &anc[..anc.len().min(1)]);
    // root / top element / document element
    sym::check("root", xot.root(n) == top);
    if xot.is_document(top) {
        let els: Vec<Node> = kids(xot, top).into_iter().filter(|x| xot.is_element(*x)).collect();
        match xot.document_element(top) {
            Ok(e) => sym::check("document-element", els.first() == Some(&e)),
            Err(_) => sym::check("document-element-err", els.is_empty()),
        }
    }
    {
        // the outermost element above (or equal to) n, for every n that has one
        let mut te = if k == 1 { Some(n) } else { None };
        for a in anc.iter() {
            if xot.is_element(*a) {
                te = Some(*a);
            }
        }
        if let Some(te) = te {
            sym::check("top-element", xot.top_element(n) == te);
        }
    }
    // traverse: start/end edges in document order
    let mut edges = Vec::new();
    fn walk(xot: &Xot, n: Node, out: &mut Vec<NodeEdge>) {
        out.push(NodeEdge::Start(n));
        for c in xot.children(n) {
            walk(xot, c, out);
        }
        out.push(NodeEdge::End(n));
    }
    walk(xot, n, &mut edges);
    let got: Vec<NodeEdge> = xot.traverse(n).collect();
    sym::check("traverse", got == edges);
    let mut redges = edges.clone();
    redges.reverse();
    let got: Vec<NodeEdge> = xot.reverse_traverse(n).collect();
    sym::check("reverse-traverse", got == redges);
    // NodeEdge::next / previous walk the whole tree of n
    let mut tedges = Vec::new();
    walk(xot, top, &mut tedges);
    let mut e = Some(NodeEdge::Start(top));
    let mut walked = Vec::new();
    let mut guard = 0;
    while let Some(x) = e {
        walked.push(x);
        e = x.next(xot);
        guard += 1;
        if guard > 64 {
            break;
        }
    }
    sym::check("nodeedge-next", walked == tedges);
    let mut e = Some(NodeEdge::End(top));
    let mut walked = Vec::new();
    let mut guard = 0;
    while let Some(x) = e {
        walked.push(x);
        e = x.previous(xot);
        guard += 1;
        if guard > 64 {
            break;
        }
    }
    walked.reverse();
    sym::check("nodeedge-previous", walked == tedges);
    // reverse preorder from n: everything before n in document order, reversed
    let mut rp: Vec<Node> = doc_order[..=pos].to_vec();
    rp.reverse();
    eq_list("reverse-preorder", xot.reverse_preorder(n).collect(), &rp);
    // reverse children (bounded take: a non-terminating iterator must fail the check, not hang it)
    let mut rch = ch.clone();
    rch.reverse();
    let got: Vec<Node> = xot.reverse_children(n).take(16).collect();
    sym::check("reverse-children", got == rch);
}

/// the all_* variants and the behaviour of attribute / namespace nodes
pub fn h_c07_all() {
    let shape = sym::choose("shape", TSHAPES);
    let w = build_tree(shape);
    let xot = &w.xot;
    let all = collect_all(xot, &w.nodes);
    let n = all[sym::choose("n", all.len())];
    let k = kind_code(xot, n);
    let top = top_of(xot, n);
    let mut all_order = Vec::new();
    all_preorder(xot, top, &mut all_order);
    let pos = all_order.iter().position(|x| *x == n).unwrap();
    if k == 5 || k == 6 {
        // special nodes: parent, ancestors, same-kind siblings; never in plain views
        sym::assume(xot.parent(n).is_some());
        let p = xot.parent(n).unwrap();
        sym::check("special-not-in-children", !xot.children(p).any(|x| x == n));
        sym::check("special-not-in-descendants", !xot.descendants(top).any(|x| x == n));
        let mut anc_self = vec![n];
        let mut c = Some(p);
        while let Some(x) = c {
            anc_self.push(x);
            c = xot.parent(x);
        }
        eq_list("special-ancestors", xot.ancestors(n).collect(), &anc_self);
        let same: Vec<Node> = if k == 5 { xot.attributes(p).nodes().collect() } else { xot.namespaces(p).nodes().collect() };
        let i = same.iter().position(|x| *x == n).unwrap();
        sym::check("special-next-sibling", xot.next_sibling(n) == same.get(i + 1).copied());
        sym::check("special-previous-sibling", xot.previous_sibling(n) == if i > 0 { Some(same[i - 1]) } else { None });
        if k == 5 {
            sym::check("attribute-axis", xot.axis(Axis::Attribute, p).any(|x| x == n));
        }
        sym::check("special-root", xot.root(n) == top);
    } else {
        let mut d = Vec::new();
        all_preorder(xot, n, &mut d);
        eq_list("all-descendants", xot.all_descendants(n).collect(), &d);
        let attrs: Vec<Node> = if k == 1 { xot.attributes(n).nodes().collect() } else { vec![] };
        eq_list("attribute-axis-list", xot.axis(Axis::Attribute, n).collect(), &attrs);
        eq_list("attribute-nodes", xot.attribute_nodes(n).collect(), &attrs);
        // all_traverse: start/end edges incl. special nodes
        let mut edges = Vec::new();
        fn walk_all(xot: &Xot, n: Node, out: &mut Vec<NodeEdge>) {
            out.push(NodeEdge::Start(n));
            if xot.is_element(n) {
                for x in xot.namespaces(n).nodes() {
                    out.push(NodeEdge::Start(x));
                    out.push(NodeEdge::End(x));
                }
                for x in xot.attributes(n).nodes() {
                    out.push(NodeEdge::Start(x));
                    out.push(NodeEdge::End(x));
                }
            }
            for c in xot.children(n) {
                walk_all(xot, c, out);
            }
            out.push(NodeEdge::End(n));
        }
        walk_all(xot, n, &mut edges);
        let got: Vec<NodeEdge> = xot.all_traverse(n).collect();
        sym::check("all-traverse", got == edges);
        let mut redges = edges.clone();
        redges.reverse();
        let got: Vec<NodeEdge> = xot.reverse_all_traverse(n).collect();
        sym::check("reverse-all-traverse", got == redges);
        // all_following: everything after n's subtree in the all-order
        let after: Vec<Node> = all_order[pos + d.len()..].to_vec();
        eq_list("all-following", xot.all_following(n).collect(), &after);
    }
    // all_reverse_preorder from n: everything up to n in the all-order, reversed
    let mut rp: Vec<Node> = all_order[..=pos].to_vec();
    rp.reverse();
    eq_list("all-reverse-preorder", xot.all_reverse_preorder(n).collect(), &rp);
    // level order of the tree: nodes by depth, document order inside a level
    let mut lv: Vec<Node> = Vec::new();
    let mut cur = vec![top];
    while !cur.is_empty() {
        let mut nxt = Vec::new();
        for x in &cur {
            lv.push(*x);
            nxt.extend(kids(xot, *x));
        }
        cur = nxt;
    }
    let got: Vec<Node> = xot
        .level_order(top)
        .filter_map(|l| match l {
            xot::LevelOrder::Node(x) => Some(x),
            xot::LevelOrder::End => None,
        })
        .collect();
    sym::check("level-order", got == lv);
}
