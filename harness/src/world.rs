//! Small start forests ("worlds") built with xot's real constructors, and the
//! mutating operations of the public API behind one dispatch function.
use crate::sym;
use xot::{Error, NameId, NamespaceId, Node, PrefixId, Xot};

pub struct World {
    pub xot: Xot,
    /// every handle the harness knows about (live or not)
    pub nodes: Vec<Node>,
    pub name_a: NameId,
    pub name_b: NameId,
    pub name_w: NameId,
    pub attr_x: NameId,
    pub attr_y: NameId,
    pub pfx_p: PrefixId,
    pub pfx_q: PrefixId,
    pub ns_1: NamespaceId,
    pub ns_2: NamespaceId,
    pub consolidated: bool,
}

/// one symbolic non-empty text payload (1 XML char)
fn payload(name: &'static str) -> String {
    let s = sym::any_string(name, 1);
    for c in s.chars() {
        sym::assume(crate::common::is_xml_char(c));
    }
    s
}

pub const SHAPES: usize = 7;

/// Build start forest number `shape`. All contents of text-like nodes are
/// symbolic; structure is concrete.
pub fn build(shape: usize, consolidate: bool) -> World {
    let mut xot = Xot::new();
    if !consolidate {
        xot.set_text_consolidation(false);
    }
    let name_a = xot.add_name("a");
    let name_b = xot.add_name("b");
    let name_w = xot.add_name("w");
    let attr_x = xot.add_name("x");
    let attr_y = xot.add_name("y");
    let pfx_p = xot.add_prefix("p");
    let pfx_q = xot.add_prefix("q");
    let ns_1 = xot.add_namespace("urn:1");
    let ns_2 = xot.add_namespace("urn:2");
    let mut nodes = Vec::new();
    match shape {
        0 => {
            // <a>t1<b/>t2</a> in a document, plus an unattached element
            let a = xot.new_element(name_a);
            let d = xot.new_document_with_element(a).unwrap();
            let t1 = xot.new_text(&payload("t1"));
            let b = xot.new_element(name_b);
            // the second text may be empty (new_text("") is allowed)
            let t2 = if sym::choose("t2len", 2) == 0 { xot.new_text("") } else { xot.new_text(&payload("t2")) };
            xot.append(a, t1).unwrap();
            xot.append(a, b).unwrap();
            xot.append(a, t2).unwrap();
            let mut extra = Vec::new();
            if !consolidate {
                // three adjacent text nodes at the end (possible only while consolidation is off)
                // (concrete contents: every symbolic text multiplies the paths of the whitespace-sensitive calls)
                let t2b = xot.new_text("p");
                let t2c = xot.new_text("q");
                xot.append(a, t2b).unwrap();
                xot.append(a, t2c).unwrap();
                extra.extend([t2b, t2c]);
            }
            let u = xot.new_element(name_w);
            nodes.extend([d, a, t1, b, t2, u]);
            nodes.extend(extra);
        }
        1 => {
            // element with 2 namespace nodes, 2 attributes, comment, child; spare attr / ns nodes
            let a = xot.new_element(name_a);
            let d = xot.new_document_with_element(a).unwrap();
            xot.set_namespace(a, pfx_p, ns_1);
            xot.set_namespace(a, pfx_q, ns_2);
            xot.set_attribute(a, attr_x, payload("v1"));
            xot.set_attribute(a, attr_y, payload("v2"));
            let c = xot.new_comment(&payload("c1"));
            xot.append(a, c).unwrap();
            let b = xot.new_element(name_b);
            xot.append(a, b).unwrap();
            let n1 = xot.namespaces(a).nodes().next().unwrap();
            let x1 = xot.attributes(a).nodes().next().unwrap();
            let x3 = xot.new_attribute_node(attr_x, payload("v3"));
            let n3 = xot.new_namespace_node(pfx_p, ns_2);
            // a comment before the root element: the element has a preceding sibling
            let k0 = xot.new_comment("k");
            xot.insert_before(a, k0).unwrap();
            nodes.extend([d, a, n1, x1, c, b, x3, n3, k0]);
        }
        2 => {
            // two documents and an unattached text
            let a = xot.new_element(name_a);
            let d1 = xot.new_document_with_element(a).unwrap();
            let t1 = xot.new_text(&payload("t1"));
            xot.append(a, t1).unwrap();
            let b = xot.new_element(name_b);
            let d2 = xot.new_document_with_element(b).unwrap();
            let t2 = xot.new_text(&payload("t2"));
            xot.append(b, t2).unwrap();
            let t3 = xot.new_text(&payload("t3"));
            // and a document without any child
            let d3 = xot.new_document();
            nodes.extend([d1, a, t1, d2, b, t2, t3, d3]);
        }
        3 => {
            // fragment: text, element, text directly under a document; unattached PI
            let d = xot.new_document();
            let t1 = xot.new_text(&payload("t1"));
            let a = xot.new_element(name_a);
            let t2 = xot.new_text(&payload("t2"));
            xot.append(d, t1).unwrap();
            xot.append(d, a).unwrap();
            xot.append(d, t2).unwrap();
            let pi = xot.new_processing_instruction(name_b, Some(&payload("p1")));
            nodes.extend([d, t1, a, t2, pi]);
        }
        4 => {
            // unattached chain a/b/a/text; under b: comment, the inner element (with a declaration), text
            let a = xot.new_element(name_a);
            let b = xot.new_element(name_b);
            let c = xot.new_element(name_a);
            let t = xot.new_text(&payload("t1"));
            xot.append(a, b).unwrap();
            // the inner element carries a namespace declaration and has a preceding sibling
            let k = xot.new_comment(&payload("c1"));
            xot.append(b, k).unwrap();
            xot.append(b, c).unwrap();
            xot.set_namespace(c, pfx_p, ns_1);
            xot.append(c, t).unwrap();
            let t2 = xot.new_text(&payload("t2"));
            xot.append(b, t2).unwrap();
            nodes.extend([a, b, c, t, k, t2]);
        }
        5 => {
            // element with two namespace declarations and no attribute yet; spare attribute node
            let a = xot.new_element(name_a);
            xot.set_namespace(a, pfx_p, ns_1);
            xot.set_namespace(a, pfx_q, ns_2);
            let b = xot.new_element(name_b);
            xot.append(a, b).unwrap();
            let t = xot.new_text(&payload("t1"));
            xot.append(b, t).unwrap();
            let x3 = xot.new_attribute_node(attr_y, payload("v3"));
            let n2 = xot.namespaces(a).nodes().last().unwrap();
            nodes.extend([a, n2, b, t, x3]);
        }
        _ => {
            // text - element - text - element - element under an element with an attribute
            let a = xot.new_element(name_a);
            xot.set_attribute(a, attr_x, payload("v1"));
            let t1 = xot.new_text(&payload("t1"));
            let b = xot.new_element(name_b);
            let t2 = xot.new_text(&payload("t2"));
            let c = xot.new_element(name_w);
            xot.append(a, t1).unwrap();
            xot.append(a, b).unwrap();
            xot.append(a, t2).unwrap();
            xot.append(a, c).unwrap();
            let e = xot.new_element(name_b);
            xot.append(a, e).unwrap();
            let x1 = xot.attributes(a).nodes().next().unwrap();
            nodes.extend([a, x1, t1, b, t2, c, e]);
        }
    }
    World { xot, nodes, name_a, name_b, name_w, attr_x, attr_y, pfx_p, pfx_q, ns_1, ns_2, consolidated: consolidate }
}

/// two-node operations
pub const OPS2: usize = 9;
/// one-node operations
pub const OPS1: usize = 17;

pub fn op2_name(op: usize) -> &'static str {
    match op {
        0 => "append",
        1 => "prepend",
        2 => "insert_after",
        3 => "insert_before",
        4 => "replace",
        5 => "any_append",
        6 => "append_attribute_node",
        7 => "append_namespace_node",
        _ => "insert_after+detach",
    }
}

/// Apply two-node operation `op`. Returns Ok(new nodes) / Err.
pub fn apply2(w: &mut World, op: usize, a: Node, b: Node) -> Result<Vec<Node>, Error> {
    match op {
        0 => w.xot.append(a, b).map(|_| vec![]),
        1 => w.xot.prepend(a, b).map(|_| vec![]),
        2 => w.xot.insert_after(a, b).map(|_| vec![]),
        3 => w.xot.insert_before(a, b).map(|_| vec![]),
        4 => w.xot.replace(a, b).map(|_| vec![]),
        5 => w.xot.any_append(a, b).map(|_| vec![]),
        6 => w.xot.append_attribute_node(a, b).map(|_| vec![]),
        7 => w.xot.append_namespace_node(a, b).map(|_| vec![]),
        _ => {
            w.xot.insert_after(a, b)?;
            if w.xot.is_removed(b) {
                // a text node merged into its new neighbour
                return Ok(vec![]);
            }
            w.xot.detach(b).map(|_| vec![])
        }
    }
}

pub fn op1_name(op: usize) -> &'static str {
    match op {
        0 => "detach",
        1 => "remove",
        2 => "element_wrap",
        3 => "element_unwrap",
        4 => "clone_node",
        5 => "append_text",
        6 => "append_element",
        7 => "append_comment",
        8 => "remove_insignificant_whitespace",
        9 => "clone_with_prefixes",
        10 => "create_missing_prefixes",
        11 => "deduplicate_namespaces",
        12 => "set_text",
        13 => "comment_mut.set",
        14 => "processing_instruction_mut.set_data",
        15 => "text_content_mut.set",
        _ => "parse",
    }
}

/// Apply one-node operation `op` on `a`.
pub fn apply1(w: &mut World, op: usize, a: Node) -> Result<Vec<Node>, Error> {
    match op {
        0 => w.xot.detach(a).map(|_| vec![]),
        1 => w.xot.remove(a).map(|_| vec![]),
        2 => w.xot.element_wrap(a, w.name_w).map(|n| vec![n]),
        3 => w.xot.element_unwrap(a).map(|_| vec![]),
        4 => {
            let c = w.xot.clone_node(a);
            Ok(vec![c])
        }
        5 => {
            let s = payload("nt");
            w.xot.append_text(a, &s).map(|_| vec![])
        }
        6 => w.xot.append_element(a, w.name_b).map(|_| vec![]),
        7 => {
            let s = payload("nc");
            w.xot.append_comment(a, &s).map(|_| vec![])
        }
        8 => {
            w.xot.remove_insignificant_whitespace(a);
            Ok(vec![])
        }
        9 => {
            let c = w.xot.clone_with_prefixes(a);
            Ok(vec![c])
        }
        10 => w.xot.create_missing_prefixes(a).map(|_| vec![]),
        11 => {
            w.xot.deduplicate_namespaces(a);
            Ok(vec![])
        }
        12 => {
            let s = payload("nt");
            if let Some(t) = w.xot.text_mut(a) {
                t.set(s);
            }
            Ok(vec![])
        }
        13 => {
            let s = payload("nc");
            if let Some(c) = w.xot.comment_mut(a) {
                c.set(s);
            }
            Ok(vec![])
        }
        14 => {
            let s = payload("np");
            if let Some(pi) = w.xot.processing_instruction_mut(a) {
                pi.set_data(Some(s));
            }
            Ok(vec![])
        }
        15 => {
            let s = payload("nt");
            if let Some(t) = w.xot.text_content_mut(a) {
                t.set(s);
            }
            Ok(vec![])
        }
        _ => {
            // parsing a further document into the same store (the node argument is not used)
            let mut src = String::from("<a p='");
            src.push_str(&payload("nv"));
            src.push_str("'>x<b/>y</a>");
            match w.xot.parse(&src) {
                Ok(d) => Ok(vec![d]),
                Err(_) => Ok(vec![]),
            }
        }
    }
}

/// element-only operations (documented to panic on non-elements, so only
/// applied to elements)
pub const OPSE: usize = 8;

pub fn ope_name(op: usize) -> &'static str {
    match op {
        0 => "set_attribute(existing)",
        1 => "set_attribute(new)",
        2 => "remove_attribute",
        3 => "set_namespace(existing prefix)",
        4 => "set_namespace(new prefix)",
        5 => "remove_namespace",
        6 => "attributes_mut.clear",
        _ => "set_element_name",
    }
}

pub fn apply_e(w: &mut World, op: usize, a: Node) {
    match op {
        0 => {
            let s = payload("nv");
            w.xot.set_attribute(a, w.attr_x, s)
        }
        1 => {
            let s = payload("nv");
            w.xot.set_attribute(a, w.name_w, s)
        }
        2 => w.xot.remove_attribute(a, w.attr_x),
        3 => w.xot.set_namespace(a, w.pfx_p, w.ns_2),
        4 => {
            let e = w.xot.empty_prefix();
            w.xot.set_namespace(a, e, w.ns_1)
        }
        5 => w.xot.remove_namespace(a, w.pfx_p),
        6 => w.xot.attributes_mut(a).clear(),
        _ => w.xot.set_element_name(a, w.name_b),
    }
}

/// all nodes reachable from the handles (adds newly created descendants such
/// as clone children) - through public navigation
pub fn collect_all(xot: &Xot, roots: &[Node]) -> Vec<Node> {
    let mut out: Vec<Node> = Vec::new();
    for &r in roots {
        if !out.contains(&r) {
            out.push(r);
        }
        if xot.is_removed(r) {
            continue;
        }
        // own root walk with a guard: a (buggy) cyclic structure must not hang the harness
        let mut top = r;
        let mut hops = 0;
        while let Some(p) = xot.parent(top) {
            top = p;
            hops += 1;
            if hops > 32 {
                break;
            }
        }
        let mut stack = vec![top];
        let mut guard = 0;
        while let Some(n) = stack.pop() {
            guard += 1;
            if guard > 64 {
                break;
            }
            if !out.contains(&n) {
                out.push(n);
            }
            if xot.is_element(n) {
                for x in xot.namespaces(n).nodes() {
                    if !out.contains(&x) {
                        out.push(x);
                    }
                }
                for x in xot.attributes(n).nodes() {
                    if !out.contains(&x) {
                        out.push(x);
                    }
                }
            }
            for c in xot.children(n) {
                stack.push(c);
            }
        }
    }
    out
}
