//! C08: name / namespace / prefix interning.
use crate::sym;
use xot::verif_hooks as hk;
use xot::Xot;

pub fn register(v: &mut Vec<(&'static str, crate::Harness)>) {
    v.push(("h_c08_index_round_trip", h_c08_index_round_trip));
    v.push(("h_c08_interning", h_c08_interning));
    v.push(("h_c08_builtins_and_parse", h_c08_builtins_and_parse));
    v.push(("h_c08_parsed_names", h_c08_parsed_names));
    v.push(("h_c08_html5", h_c08_html5));
}

/// the lemma that carries "however many registrations": an id is made from the
/// table length and must map back to it - for EVERY index (no bound: one
/// 64-bit bit-vector query per id type)
pub fn h_c08_index_round_trip() {
    let kind = sym::choose("kind", 3) as u8;
    let i = sym::any_usize("index");
    sym::class("KF-C08-ids-are-16-bit", i > 0xFFFF);
    sym::check("id-maps-back-to-its-table-index", hk::id_index_round_trip(kind, i) == i);
}

fn short(name: &'static str, lenname: &'static str) -> String {
    let n = sym::choose(lenname, sym::param("LEN", 2));
    sym::any_string(name, n)
}

/// r registrations of symbolic strings: same id exactly for the same string,
/// lookups return what was registered, earlier ids keep their meaning
pub fn h_c08_interning() {
    let mut xot = Xot::new();
    let which = sym::choose("table", 3);
    let (s1, s2, s3) = (short("s1", "l1"), short("s2", "l2"), short("s3", "l3"));
    match which {
        0 => {
            let a = xot.add_prefix(&s1);
            let b = xot.add_prefix(&s2);
            sym::check("same-id-iff-same-string", (a == b) == (s1 == s2));
            sym::check("lookup-returns-registered-string", xot.prefix_str(a) == s1 && xot.prefix_str(b) == s2);
            let c = xot.add_prefix(&s3);
            sym::check("earlier-ids-keep-their-meaning", xot.prefix_str(a) == s1 && xot.prefix_str(b) == s2 && xot.prefix_str(c) == s3);
            sym::check("re-registration-returns-same-id", xot.add_prefix(&s1) == a && xot.add_prefix(&s2) == b);
            sym::check("read-only-lookup-finds-registered", xot.prefix(&s1) == Some(a) && xot.prefix(&s2) == Some(b) && xot.prefix(&s3) == Some(c));
            let known = s3 == s1 || s3 == s2;
            let _ = known;
        }
        1 => {
            let a = xot.add_namespace(&s1);
            let b = xot.add_namespace(&s2);
            sym::check("same-id-iff-same-string", (a == b) == (s1 == s2));
            sym::check("lookup-returns-registered-string", xot.namespace_str(a) == s1 && xot.namespace_str(b) == s2);
            // a string that was never registered is not found by the read-only lookup
            let builtin = s3.is_empty() || s3 == "http://www.w3.org/XML/1998/namespace";
            if s3 != s1 && s3 != s2 && !builtin {
                sym::check("read-only-lookup-does-not-invent", xot.namespace(&s3).is_none());
            }
            sym::check("read-only-lookup-finds-registered", xot.namespace(&s1) == Some(a) && xot.namespace(&s2) == Some(b));
        }
        _ => {
            // names: (local name, namespace) pairs
            let ns1 = xot.add_namespace("urn:1");
            let none = xot.no_namespace();
            let nsa = if sym::choose("nsa", 2) == 0 { none } else { ns1 };
            let nsb = if sym::choose("nsb", 2) == 0 { none } else { ns1 };
            let a = xot.add_name_ns(&s1, nsa);
            let b = xot.add_name_ns(&s2, nsb);
            sym::check("same-id-iff-same-pair", (a == b) == (s1 == s2 && nsa == nsb));
            sym::check("lookup-returns-registered-pair", xot.name_ns_str(a) == (s1.as_str(), xot.namespace_str(nsa)) && xot.local_name_str(b) == s2 && xot.namespace_for_name(b) == nsb);
            sym::check("read-only-lookup-finds-registered", xot.name_ns(&s1, nsa) == Some(a) && xot.name_ns(&s2, nsb) == Some(b));
            sym::check("add-name-is-no-namespace", xot.add_name(&s3) == xot.add_name_ns(&s3, none));
            if !(s3 == s1 && nsa == ns1) && !(s3 == s2 && nsb == ns1) {
                sym::check("read-only-lookup-does-not-invent", xot.name_ns(&s3, ns1).is_none());
            }
            // a clone is an independent store in which every id denotes an equal name
            let copy = xot.clone();
            sym::check("clone-keeps-meaning", copy.name_ns_str(a) == xot.name_ns_str(a) && copy.name_ns_str(b) == xot.name_ns_str(b));
            let extra = xot.add_name("only-in-original");
            sym::check("clone-is-independent", copy.name("only-in-original").is_none() && xot.name("only-in-original") == Some(extra));
        }
    }
}

/// built-in ids and registrations made implicitly by parsing
pub fn h_c08_builtins_and_parse() {
    let mut xot = Xot::new();
    let xml_ns = "http://www.w3.org/XML/1998/namespace";
    sym::check("builtin-no-namespace", xot.namespace_str(xot.no_namespace()) == "" && xot.namespace("") == Some(xot.no_namespace()));
    sym::check("builtin-empty-prefix", xot.prefix_str(xot.empty_prefix()) == "" && xot.prefix("") == Some(xot.empty_prefix()));
    sym::check("builtin-xml-prefix", xot.prefix_str(xot.xml_prefix()) == "xml" && xot.prefix("xml") == Some(xot.xml_prefix()));
    sym::check("builtin-xml-namespace", xot.namespace_str(xot.xml_namespace()) == xml_ns && xot.namespace(xml_ns) == Some(xot.xml_namespace()));
    sym::check("builtin-distinct", xot.no_namespace() != xot.xml_namespace() && xot.empty_prefix() != xot.xml_prefix() && xot.xml_space_name() != xot.xml_id_name());
    sym::check("builtin-xml-space", xot.name_ns_str(xot.xml_space_name()) == ("space", xml_ns) && xot.name_ns("space", xot.xml_namespace()) == Some(xot.xml_space_name()));
    sym::check("builtin-xml-id", xot.name_ns_str(xot.xml_id_name()) == ("id", xml_ns) && xot.name_ns("id", xot.xml_namespace()) == Some(xot.xml_id_name()));
    // names registered by parsing compare equal to names registered directly
    let t = sym::any_string("t", 1);
    for c in t.chars() {
        let u = c as u32;
        sym::assume(((u >= 0x61) & (u <= 0x7a)) | ((u >= 0x41) & (u <= 0x5a)));
    }
    let src = format!("<{}:a xmlns:{}=\"urn:x\" xmlns=\"urn:d\" {}=\"1\" xml:id=\"i\"><?{} d?><b/></{}:a>", t, t, t, t, t);
    match xot.parse(&src) {
        Ok(doc) => {
            let el = xot.document_element(doc).unwrap();
            let nsx = xot.add_namespace("urn:x");
            let nsd = xot.add_namespace("urn:d");
            sym::check("parsed-element-name-equals-registered", xot.node_name(el) == Some(xot.add_name_ns("a", nsx)));
            let first_prefix = xot.namespaces(el).keys().next();
            let registered = xot.add_prefix(&t);
            sym::check("parsed-prefix-equals-registered", first_prefix == Some(registered));
            let an = xot.add_name(&t);
            sym::check("parsed-attribute-name-equals-registered", xot.attributes(el).contains_key(an));
            sym::check("parsed-xml-id-is-builtin", xot.attributes(el).contains_key(xot.xml_id_name()));
            let pi = xot.first_child(el).unwrap();
            // a processing-instruction target is a name in no namespace, whatever default namespace is in scope
            sym::check("parsed-pi-target-in-no-namespace", xot.node_name(pi) == Some(an));
            let b = xot.next_sibling(pi).unwrap();
            sym::check("parsed-unprefixed-element-in-default-namespace", xot.node_name(b) == Some(xot.add_name_ns("b", nsd)));
        }
        Err(_) => sym::check("well-formed-document-accepted", false),
    }
    // a document that rebinds the xml prefix (xot accepts it): names written with it resolve like
    // any other prefixed name, for elements and attributes alike
    if let Ok(doc) = xot.parse("<xml:e xmlns:xml=\"urn:other\" xml:b=\"1\"/>") {
        let el = xot.document_element(doc).unwrap();
        let other = xot.add_namespace("urn:other");
        sym::check("rebound-xml-prefix-element-name", xot.node_name(el) == Some(xot.add_name_ns("e", other)));
        let b_other = xot.add_name_ns("b", other);
        sym::check("rebound-xml-prefix-attribute-name", xot.attributes(el).contains_key(b_other) && xot.attributes(el).len() == 1);
    }
}

/// html5() registers several hundred names: earlier ids keep their meaning and the
/// HTML names compare equal to names registered directly (concrete strings; the
/// symbolic dimension of interning is h_c08_interning)
pub fn h_c08_html5() {
    let mut xot = Xot::new();
    let ns = xot.add_namespace("urn:1");
    let xh = xot.add_namespace("http://www.w3.org/1999/xhtml");
    let names = ["br", "BR", "Br", "zz", "a", "script"];
    let mut before = Vec::new();
    for n in names.iter() {
        before.push((xot.add_name(n), xot.add_name_ns(n, ns), xot.add_name_ns(n, xh)));
    }
    let p = xot.add_prefix("h");
    {
        let _h = xot.html5();
    }
    let none = xot.no_namespace();
    for (i, n) in names.iter().enumerate() {
        let (a, b, c) = before[i];
        sym::check("ids-keep-their-meaning-after-html5", xot.name_ns_str(a) == (*n, "") && xot.name_ns_str(b) == (*n, "urn:1") && xot.namespace_for_name(c) == xh && xot.local_name_str(c) == *n);
        sym::check("re-registration-after-html5-returns-same-id", xot.add_name_ns(n, none) == a && xot.add_name_ns(n, ns) == b && xot.add_name_ns(n, xh) == c);
        sym::check("read-only-lookup-after-html5", xot.name(n) == Some(a) && xot.name_ns(n, ns) == Some(b));
    }
    sym::check("namespace-and-prefix-ids-keep-their-meaning", xot.namespace_str(ns) == "urn:1" && xot.namespace_str(xh) == "http://www.w3.org/1999/xhtml" && xot.prefix_str(p) == "h" && xot.add_namespace("urn:1") == ns);
    // a second html5() registers nothing new under a different id
    let hr = xot.name("hr");
    {
        let _h = xot.html5();
    }
    sym::check("html-names-are-stable-across-html5-calls", hr.is_some() && xot.name("hr") == hr && xot.add_name("hr") == hr.unwrap());
}

/// names registered implicitly by parsing, looked at only through the read-only lookups (nothing is registered
/// directly before the checks): siblings with the same spelling under different bindings, names longer than
/// anything registered through the API, and the ids the nodes carry resolve back to what was written
pub fn h_c08_parsed_names() {
    let mut xot = Xot::new();
    let t = sym::any_string("t", 1);
    for c in t.chars() {
        let u = c as u32;
        sym::assume(((u >= 0x61) & (u <= 0x7a)) | ((u >= 0x41) & (u <= 0x5a)));
    }
    let long = format!("configuration{}", t);
    let long_attr = format!("{}attributename", t);
    let order = sym::choose("order", 2);
    // the same spelling p:T three times: rebinding p itself / under the outer binding / declaring something else
    let kids = if order == 0 {
        format!("<p:{t} xmlns:p=\"urn:inner\"/><p:{t}/><p:{t} xmlns:q=\"urn:q\"/>", t = t)
    } else {
        format!("<p:{t}/><p:{t} xmlns:p=\"urn:inner\"/><p:{t} xmlns:q=\"urn:q\"/>", t = t)
    };
    let src = format!("<r xmlns:p=\"urn:outer\">{}<{} {}=\"1\"/><{t} xmlns=\"urn:inner\"/><{t}/></r>", kids, long, long_attr, t = t);
    let doc = match xot.parse(&src) {
        Ok(d) => d,
        Err(_) => {
            sym::check("well-formed-document-accepted", false);
            return;
        }
    };
    let r = xot.document_element(doc).unwrap();
    let k: Vec<xot::Node> = xot.children(r).collect();
    sym::check("child-count", k.len() == 6);
    if k.len() != 6 {
        return;
    }
    let (outer, inner) = (xot.namespace("urn:outer"), xot.namespace("urn:inner"));
    sym::check("parsed-namespaces-found-by-read-only-lookup", outer.is_some() && inner.is_some() && outer != inner);
    let (outer, inner) = (outer.unwrap(), inner.unwrap());
    let (first_ns, second_ns) = if order == 0 { (inner, outer) } else { (outer, inner) };
    let n_first = xot.name_ns(&t, first_ns);
    let n_second = xot.name_ns(&t, second_ns);
    sym::check("same-spelling-different-binding-different-id", n_first.is_some() && n_second.is_some() && n_first != n_second);
    sym::check("first-sibling-name", xot.node_name(k[0]) == n_first);
    sym::check("second-sibling-name", xot.node_name(k[1]) == n_second);
    sym::check("third-sibling-name", xot.node_name(k[2]) == xot.name_ns(&t, outer));
    for (i, ns) in [(0, first_ns), (1, second_ns), (2, outer)] {
        let id = xot.node_name(k[i]).unwrap();
        sym::check("id-resolves-to-what-was-written", xot.name_ns_str(id) == (t.as_str(), xot.namespace_str(ns)));
    }
    // long names registered only by the parser
    let ln = xot.name(&long);
    sym::check("parsed-long-name-found-by-read-only-lookup", ln.is_some() && xot.node_name(k[3]) == ln);
    let la = xot.name(&long_attr);
    sym::check("parsed-long-attribute-name-found-by-read-only-lookup", la.is_some() && xot.attributes(k[3]).contains_key(la.unwrap()));
    // unprefixed siblings: default namespace on the first only
    sym::check("unprefixed-sibling-with-own-default", xot.node_name(k[4]) == xot.name_ns(&t, inner));
    sym::check("unprefixed-sibling-without-default", xot.node_name(k[5]) == xot.name(&t) && xot.name(&t).is_some() && xot.name(&t) != xot.name_ns(&t, inner));
    // registering afterwards returns the ids the parser made
    sym::check("later-registration-returns-the-parsers-id", Some(xot.add_name(&long)) == ln && Some(xot.add_name_ns(&t, first_ns)) == n_first);
    // a clone answers the same
    let copy = xot.clone();
    sym::check("clone-finds-parsed-names", copy.name(&long) == ln && copy.name_ns(&t, second_ns) == n_second);
}
