//! mirdump: a rustc driver that behaves like rustc (with `-Zalways-encode-mir`)
//! for every crate, and for the crate named by $MIRDUMP_CRATE additionally
//! dumps, after analysis, the monomorphic MIR of every instance reachable
//! from the harness roots (local non-generic fns whose name starts with
//! `h_`) as JSON to $MIRDUMP_OUT.  The JSON is consumed by /verif/mirsym.
//!
//! Built with: rustc +nightly -O main.rs -o mirdump   (needs rustc-dev)
#![feature(rustc_private)]
#![allow(clippy::all)]

extern crate rustc_driver;
extern crate rustc_interface;
extern crate rustc_middle;
#[macro_use]
extern crate rustc_public;
extern crate serde_json;
extern crate rustc_public_bridge;

use rustc_public::abi::{FieldsShape, LayoutShape, TagEncoding, VariantsShape};
use rustc_public::mir::alloc::GlobalAlloc;
use rustc_public::mir::mono::{Instance, InstanceKind};
use rustc_public::mir::*;
use rustc_public::ty::*;
use rustc_public::{CrateDef, CrateItem, ItemKind};
use rustc_public_bridge::IndexedVal;
use serde_json::{json, Value};
use std::collections::{BTreeMap, HashMap, HashSet, VecDeque};
use std::ops::ControlFlow;
use std::panic::{catch_unwind, AssertUnwindSafe};

struct Dumper {
    fns: BTreeMap<String, Value>,
    queue: VecDeque<Instance>,
    seen: HashSet<String>,
    types: BTreeMap<String, Value>,
    ty_ids: HashMap<Ty, usize>,
    ty_list: Vec<Ty>,
    ty_done: usize,
    vtables: BTreeMap<String, Value>,
    stop: Vec<String>,
    statics: BTreeMap<String, Value>,
    next_def: Option<FnDef>,
    into_iter_def: Option<FnDef>,
}

fn find_trait_fn(trait_suffix: &str, fn_name: &str) -> Option<FnDef> {
    for t in rustc_public::all_trait_decls() {
        let n = t.name();
        if n == trait_suffix || n.ends_with(&format!("::{}", trait_suffix)) {
            for it in t.associated_items() {
                if let AssocKind::Fn { name, .. } = &it.kind {
                    if name == fn_name {
                        return Some(FnDef(it.def_id.0));
                    }
                }
            }
        }
    }
    None
}

fn ikind(i: &Instance) -> &'static str {
    match i.kind {
        InstanceKind::Item => "item",
        InstanceKind::Intrinsic => "intrinsic",
        InstanceKind::Virtual { .. } => "virtual",
        InstanceKind::Shim => "shim",
    }
}

impl Dumper {
    fn ty(&mut self, t: Ty) -> usize {
        if let Some(i) = self.ty_ids.get(&t) {
            return *i;
        }
        let i = self.ty_list.len();
        self.ty_ids.insert(t, i);
        self.ty_list.push(t);
        i
    }

    fn inst_ref(&mut self, i: Instance) -> Value {
        let m = i.mangled_name();
        let def_name = i.def.def_id().name();
        let mut v = json!({"fn": m, "name": i.name(), "def": def_name, "kind": ikind(&i)});
        if let InstanceKind::Virtual { idx } = i.kind {
            v["virt"] = json!(idx);
        }
        if let Some(n) = i.intrinsic_name() {
            v["intrinsic"] = json!(n);
        }
        if !self.seen.contains(&m) {
            self.seen.insert(m.clone());
            self.queue.push_back(i);
        }
        v
    }

    fn place(&mut self, p: &Place) -> Value {
        let mut proj = vec![];
        for e in &p.projection {
            proj.push(match e {
                ProjectionElem::Deref => json!("deref"),
                ProjectionElem::Field(i, t) => json!(["f", i, self.ty(*t)]),
                ProjectionElem::Index(l) => json!(["idx", l]),
                ProjectionElem::ConstantIndex { offset, min_length, from_end } => {
                    json!(["cidx", offset, min_length, from_end])
                }
                ProjectionElem::Subslice { from, to, from_end } => json!(["sub", from, to, from_end]),
                ProjectionElem::Downcast(v) => json!(["dc", v.to_index()]),
                ProjectionElem::OpaqueCast(t) => json!(["opaque", self.ty(*t)]),
            });
        }
        json!([p.local, proj])
    }

    fn read_uint(bytes: &[Option<u8>], off: usize, size: usize) -> Option<u128> {
        let mut v: u128 = 0;
        if off + size > bytes.len() || size > 16 {
            return None;
        }
        for i in (0..size).rev() {
            v = (v << 8) | (bytes[off + i]? as u128);
        }
        Some(v)
    }

    /// Decode the bytes of a constant allocation at `off` as a value of type `t`.
    fn decode(&mut self, alloc: &Allocation, off: usize, t: Ty, depth: usize) -> Value {
        if depth > 12 {
            return json!({"undecoded": "depth"});
        }
        let kind = t.kind();
        let Some(rigid) = kind.rigid() else { return json!({"undecoded": format!("{:?}", kind)}) };
        let layout: Option<LayoutShape> = t.layout().ok().map(|l| l.shape());
        let size = layout.as_ref().map(|l| l.size.bytes()).unwrap_or(0);
        match rigid {
            RigidTy::Bool | RigidTy::Char | RigidTy::Int(_) | RigidTy::Uint(_) => {
                match Self::read_uint(&alloc.bytes, off, size) {
                    Some(v) => json!({"int": v.to_string()}),
                    None => json!({"uninit": true}),
                }
            }
            RigidTy::Pat(inner, _) => self.decode(alloc, off, *inner, depth + 1),
            RigidTy::Float(_) => match Self::read_uint(&alloc.bytes, off, size) {
                Some(v) => json!({"float_bits": v.to_string()}),
                None => json!({"uninit": true}),
            },
            RigidTy::Ref(_, inner, _) | RigidTy::RawPtr(inner, _) => {
                let prov = alloc.provenance.ptrs.iter().find(|(o, _)| *o == off).map(|(_, p)| p.0);
                let addr = Self::read_uint(&alloc.bytes, off, 8);
                let ik = inner.kind();
                let unsized_len = match ik.rigid() {
                    Some(RigidTy::Str) | Some(RigidTy::Slice(_)) => Self::read_uint(&alloc.bytes, off + 8, 8),
                    _ => None,
                };
                let Some(aid) = prov else {
                    return json!({"ptr_int": addr.map(|a| a.to_string()), "len": unsized_len.map(|a| a.to_string())});
                };
                let ga = GlobalAlloc::from(aid);
                match ga {
                    GlobalAlloc::Memory(m) => {
                        let base = addr.unwrap_or(0) as usize;
                        match ik.rigid() {
                            Some(RigidTy::Str) => {
                                let n = unsized_len.unwrap_or(0) as usize;
                                let b: Vec<u8> = m.bytes[base..base + n].iter().map(|x| x.unwrap_or(0)).collect();
                                json!({"str": String::from_utf8_lossy(&b)})
                            }
                            Some(RigidTy::Slice(et)) => {
                                let n = unsized_len.unwrap_or(0) as usize;
                                let esz = et.layout().ok().map(|l| l.shape().size.bytes()).unwrap_or(0);
                                let mut items = vec![];
                                for i in 0..n {
                                    items.push(self.decode(&m, base + i * esz, *et, depth + 1));
                                }
                                json!({"ref": {"array": items}})
                            }
                            Some(RigidTy::Dynamic(..)) => json!({"undecoded": "dyn const"}),
                            _ => {
                                let v = self.decode(&m, base, *inner, depth + 1);
                                json!({"ref": v})
                            }
                        }
                    }
                    GlobalAlloc::Function(i) => json!({"fnptr": self.inst_ref(i)}),
                    GlobalAlloc::Static(s) => {
                        let name = s.name();
                        if !self.statics.contains_key(&name) {
                            self.statics.insert(name.clone(), json!(null));
                            let v = match s.eval_initializer() {
                                Ok(a) => {
                                    let sty = s.ty();
                                    let val = self.decode(&a, 0, sty, depth + 1);
                                    json!({"ty": self.ty(sty), "val": val})
                                }
                                Err(e) => json!({"error": format!("{:?}", e)}),
                            };
                            self.statics.insert(name.clone(), v);
                        }
                        json!({"static": name})
                    }
                    GlobalAlloc::VTable(..) => json!({"undecoded": "vtable"}),
                    GlobalAlloc::TypeId { .. } => json!({"undecoded": "typeid"}),
                }
            }
            RigidTy::FnDef(def, args) => match Instance::resolve(*def, args) {
                Ok(i) => json!({"fndef": self.inst_ref(i)}),
                Err(_) => json!({"undecoded": "fndef"}),
            },
            RigidTy::FnPtr(_) => {
                let prov = alloc.provenance.ptrs.iter().find(|(o, _)| *o == off).map(|(_, p)| p.0);
                match prov.map(GlobalAlloc::from) {
                    Some(GlobalAlloc::Function(i)) => json!({"fnptr": self.inst_ref(i)}),
                    _ => json!({"undecoded": "fnptr"}),
                }
            }
            RigidTy::Tuple(tys) => {
                let Some(l) = layout else { return json!({"undecoded": "nolayout"}) };
                let offs = match &l.fields {
                    FieldsShape::Arbitrary { offsets } => offsets.iter().map(|o| o.bytes()).collect::<Vec<_>>(),
                    _ => vec![],
                };
                let mut fields = vec![];
                for (i, ft) in tys.iter().enumerate() {
                    let fo = offs.get(i).copied().unwrap_or(0);
                    fields.push(self.decode(alloc, off + fo, *ft, depth + 1));
                }
                json!({"agg": 0, "fields": fields})
            }
            RigidTy::Array(et, n) => {
                let n = n.eval_target_usize().unwrap_or(0) as usize;
                let esz = et.layout().ok().map(|l| l.shape().size.bytes()).unwrap_or(0);
                let mut items = vec![];
                for i in 0..n {
                    items.push(self.decode(alloc, off + i * esz, *et, depth + 1));
                }
                json!({"array": items})
            }
            RigidTy::Closure(..) if size == 0 => json!({"agg": 0, "fields": []}),
            RigidTy::Adt(def, args) => {
                let Some(l) = layout else { return json!({"undecoded": "nolayout"}) };
                if def.kind() == AdtKind::Union {
                    return json!({"undecoded": "union"});
                }
                let (vidx, offs): (usize, Vec<usize>) = match &l.variants {
                    VariantsShape::Empty => return json!({"undecoded": "empty"}),
                    VariantsShape::Single { index } => {
                        let offs = match &l.fields {
                            FieldsShape::Arbitrary { offsets } => offsets.iter().map(|o| o.bytes()).collect(),
                            _ => vec![],
                        };
                        (index.to_index(), offs)
                    }
                    VariantsShape::Multiple { tag, tag_encoding, tag_field, variants } => {
                        let tag_off = match &l.fields {
                            FieldsShape::Arbitrary { offsets } => offsets[*tag_field].bytes(),
                            _ => 0,
                        };
                        let tsize = match tag {
                            rustc_public::abi::Scalar::Initialized { value, .. }
                            | rustc_public::abi::Scalar::Union { value } => {
                                value.size(&rustc_public::target::MachineInfo::target()).bytes()
                            }
                        };
                        let Some(tagv) = Self::read_uint(&alloc.bytes, off + tag_off, tsize) else {
                            return json!({"uninit": true});
                        };
                        let vi = match tag_encoding {
                            TagEncoding::Direct => {
                                let mut found = None;
                                for i in 0..def.num_variants() {
                                    let d = def.discriminant_for_variant(VariantIdx::to_val(i));
                                    let mask = if tsize >= 16 { u128::MAX } else { (1u128 << (tsize * 8)) - 1 };
                                    if d.val & mask == tagv {
                                        found = Some(i);
                                    }
                                }
                                match found {
                                    Some(i) => i,
                                    None => return json!({"undecoded": "tag"}),
                                }
                            }
                            TagEncoding::Niche { untagged_variant, .. }
                                if alloc.provenance.ptrs.iter().any(|(o, _)| *o == off + tag_off) =>
                            {
                                // the niche field holds a real pointer (its bytes are only an offset
                                // into the pointee allocation): never one of the niche values
                                untagged_variant.to_index()
                            }
                            TagEncoding::Niche { untagged_variant, niche_variants, niche_start } => {
                                let mask = if tsize >= 16 { u128::MAX } else { (1u128 << (tsize * 8)) - 1 };
                                let rel = tagv.wrapping_sub(*niche_start) & mask;
                                let lo = niche_variants.start().to_index() as u128;
                                let hi = niche_variants.end().to_index() as u128;
                                if rel <= hi - lo {
                                    (lo + rel) as usize
                                } else {
                                    untagged_variant.to_index()
                                }
                            }
                        };
                        (vi, variants[vi].offsets.iter().map(|o| o.bytes()).collect())
                    }
                };
                let Some(variant) = def.variant(VariantIdx::to_val(vidx)) else {
                    return json!({"undecoded": "variant"});
                };
                let mut fields = vec![];
                for (i, f) in variant.fields().iter().enumerate() {
                    let ft = f.ty_with_args(args);
                    let fo = offs.get(i).copied().unwrap_or(0);
                    fields.push(self.decode(alloc, off + fo, ft, depth + 1));
                }
                json!({"agg": vidx, "fields": fields})
            }
            _ => {
                if size == 0 {
                    json!({"agg": 0, "fields": []})
                } else {
                    json!({"undecoded": format!("{:?}", rigid)})
                }
            }
        }
    }

    fn constant(&mut self, c: &MirConst) -> Value {
        let t = c.ty();
        let tid = self.ty(t);
        let v = match c.kind() {
            ConstantKind::Allocated(a) => {
                let r = catch_unwind(AssertUnwindSafe(|| self.decode(a, 0, t, 0)));
                r.unwrap_or_else(|_| json!({"undecoded": "panic"}))
            }
            ConstantKind::ZeroSized => {
                let kind = t.kind();
                match kind.rigid() {
                    Some(RigidTy::FnDef(def, args)) => match Instance::resolve(*def, args) {
                        Ok(i) => json!({"fndef": self.inst_ref(i)}),
                        Err(_) => json!({"undecoded": "fndef"}),
                    },
                    _ => json!({"agg": 0, "fields": [], "zst": true}),
                }
            }
            ConstantKind::Ty(tc) => match tc.eval_target_usize() {
                Ok(v) => json!({"int": v.to_string()}),
                Err(_) => json!({"undecoded": "tyconst"}),
            },
            other => json!({"undecoded": format!("{:?}", other)}),
        };
        json!(["const", v, tid])
    }

    fn operand(&mut self, o: &Operand) -> Value {
        match o {
            Operand::Copy(p) => json!(["copy", self.place(p)]),
            Operand::Move(p) => json!(["move", self.place(p)]),
            Operand::Constant(c) => self.constant(&c.const_),
            Operand::RuntimeChecks(k) => json!(["rtcheck", format!("{:?}", k)]),
        }
    }

    fn vtable_for(&mut self, src_pointee: Ty, dst_pointee: Ty) -> Option<String> {
        let dk = dst_pointee.kind();
        let principal = dk.trait_principal()?;
        let tr = principal.with_self_ty(src_pointee).skip_binder();
        let key = format!("{}#{}", self.ty(src_pointee), tr.def_id.name());
        if self.vtables.contains_key(&key) {
            return Some(key);
        }
        self.vtables.insert(key.clone(), json!(null));
        let entries = catch_unwind(AssertUnwindSafe(|| tr.vtable_entries())).ok()?;
        let mut out = vec![];
        for e in entries {
            out.push(match e {
                VtblEntry::Method(i) => self.inst_ref(i),
                _ => json!(null),
            });
        }
        self.vtables.insert(key.clone(), json!(out));
        Some(key)
    }

    fn pointee(t: Ty) -> Option<Ty> {
        let k = t.kind();
        match k.rigid()? {
            RigidTy::Ref(_, i, _) | RigidTy::RawPtr(i, _) => Some(*i),
            RigidTy::Adt(def, args) if def.is_box() => args.0.first().and_then(|a| a.ty().copied()),
            // Rc<T>, NonNull<T> etc: first type argument
            RigidTy::Adt(_, args) => args.0.first().and_then(|a| a.ty().copied()),
            _ => None,
        }
    }

    fn rvalue(&mut self, r: &Rvalue, locals: &[LocalDecl]) -> Value {
        match r {
            Rvalue::Use(o, _) => json!(["use", self.operand(o)]),
            Rvalue::Ref(_, bk, p) => {
                let k = match bk {
                    BorrowKind::Shared => "shared",
                    BorrowKind::Fake(_) => "fake",
                    BorrowKind::Mut { .. } => "mut",
                };
                json!(["ref", k, self.place(p)])
            }
            Rvalue::AddressOf(_, p) => json!(["addrof", self.place(p)]),
            Rvalue::Aggregate(k, ops) => {
                let kind = match k {
                    AggregateKind::Array(t) => json!(["array", self.ty(*t)]),
                    AggregateKind::Tuple => json!(["tuple"]),
                    AggregateKind::Adt(def, v, args, _, uf) => {
                        let t = def.ty_with_args(args);
                        json!(["adt", self.ty(t), v.to_index(), uf])
                    }
                    AggregateKind::Closure(def, args) => {
                        let t = Ty::new_closure(*def, args.clone());
                        json!(["closure", self.ty(t)])
                    }
                    AggregateKind::Coroutine(def, args) => {
                        let t = Ty::new_coroutine(*def, args.clone());
                        json!(["coroutine", self.ty(t)])
                    }
                    AggregateKind::CoroutineClosure(def, args) => {
                        let t = Ty::new_coroutine_closure(*def, args.clone());
                        json!(["coroutine_closure", self.ty(t)])
                    }
                    AggregateKind::RawPtr(t, _) => json!(["rawptr", self.ty(*t)]),
                };
                let ops: Vec<Value> = ops.iter().map(|o| self.operand(o)).collect();
                json!(["agg", kind, ops])
            }
            Rvalue::BinaryOp(op, a, b) => {
                let ta = a.ty(locals).ok().map(|t| self.ty(t));
                json!(["bin", format!("{:?}", op), self.operand(a), self.operand(b), ta])
            }
            Rvalue::CheckedBinaryOp(op, a, b) => {
                let ta = a.ty(locals).ok().map(|t| self.ty(t));
                json!(["chk", format!("{:?}", op), self.operand(a), self.operand(b), ta])
            }
            Rvalue::UnaryOp(op, a) => {
                let ta = a.ty(locals).ok().map(|t| self.ty(t));
                json!(["un", format!("{:?}", op), self.operand(a), ta])
            }
            Rvalue::Cast(k, o, t) => {
                let kind = match k {
                    CastKind::PointerCoercion(pc) => format!("{:?}", pc),
                    other => format!("{:?}", other),
                };
                let src_ty = o.ty(locals).ok();
                let mut extra = json!(null);
                if let CastKind::PointerCoercion(pc) = k {
                    match pc {
                        PointerCoercion::Unsize => {
                            if let (Some(s), Some(d)) = (src_ty.and_then(Self::pointee), Self::pointee(*t)) {
                                if let Some(key) = self.vtable_for(s, d) {
                                    extra = json!({"vtable": key});
                                }
                            }
                        }
                        PointerCoercion::ReifyFnPointer(_) => {
                            if let Some(st) = src_ty {
                                let sk = st.kind();
                                if let Some(RigidTy::FnDef(def, args)) = sk.rigid() {
                                    if let Ok(i) = Instance::resolve_for_fn_ptr(*def, args) {
                                        extra = json!({"fnptr": self.inst_ref(i)});
                                    }
                                }
                            }
                        }
                        PointerCoercion::ClosureFnPointer(_) => {
                            if let Some(st) = src_ty {
                                let sk = st.kind();
                                if let Some(RigidTy::Closure(def, args)) = sk.rigid() {
                                    if let Ok(i) = Instance::resolve_closure(*def, args, ClosureKind::FnOnce) {
                                        extra = json!({"fnptr": self.inst_ref(i)});
                                    }
                                }
                            }
                        }
                        _ => {}
                    }
                }
                let st = src_ty.map(|t| self.ty(t));
                json!(["cast", kind, self.operand(o), self.ty(*t), st, extra])
            }
            Rvalue::Discriminant(p) => json!(["discr", self.place(p)]),
            Rvalue::Len(p) => json!(["len", self.place(p)]),
            Rvalue::Repeat(o, n) => json!(["repeat", self.operand(o), n.eval_target_usize().ok()]),
            Rvalue::CopyForDeref(p) => json!(["use", ["copy", self.place(p)]]),
            Rvalue::ThreadLocalRef(i) => json!(["tlref", i.name()]),
        }
    }

    fn callee(&mut self, func: &Operand, locals: &[LocalDecl]) -> Value {
        if let Operand::Constant(c) = func {
            let k = c.ty().kind();
            if let Some(RigidTy::FnDef(def, args)) = k.rigid() {
                return match Instance::resolve(*def, args) {
                    Ok(i) => self.inst_ref(i),
                    Err(e) => json!({"unresolved": format!("{:?}", e), "name": def.name()}),
                };
            }
        }
        let _ = locals;
        json!({"op": self.operand(func)})
    }

    fn body(&mut self, b: &Body) -> Value {
        let locals: Vec<Value> = b.locals().iter().map(|l| json!(self.ty(l.ty))).collect();
        let mut blocks = vec![];
        for bb in &b.blocks {
            let mut stmts = vec![];
            for s in &bb.statements {
                match &s.kind {
                    StatementKind::Assign(p, r) => {
                        let rv = self.rvalue(r, b.locals());
                        stmts.push(json!(["assign", self.place(p), rv]));
                    }
                    StatementKind::SetDiscriminant { place, variant_index } => {
                        stmts.push(json!(["setdiscr", self.place(place), variant_index.to_index()]));
                    }
                    StatementKind::Intrinsic(NonDivergingIntrinsic::Assume(o)) => {
                        stmts.push(json!(["assume", self.operand(o)]));
                    }
                    StatementKind::Intrinsic(NonDivergingIntrinsic::CopyNonOverlapping(c)) => {
                        stmts.push(json!(["copy_nonoverlapping", self.operand(&c.src), self.operand(&c.dst), self.operand(&c.count)]));
                    }
                    StatementKind::StorageDead(l) => stmts.push(json!(["dead", l])),
                    _ => {}
                }
            }
            let unwind_v = |u: &UnwindAction| match u {
                UnwindAction::Cleanup(b) => json!(b),
                _ => json!(null),
            };
            let term = match &bb.terminator.kind {
                TerminatorKind::Goto { target } => json!(["goto", target]),
                TerminatorKind::SwitchInt { discr, targets } => {
                    let br: Vec<Value> = targets.branches().map(|(v, t)| json!([v.to_string(), t])).collect();
                    json!(["switch", self.operand(discr), br, targets.otherwise()])
                }
                TerminatorKind::Resume => json!(["resume"]),
                TerminatorKind::Abort => json!(["abort"]),
                TerminatorKind::Return => json!(["ret"]),
                TerminatorKind::Unreachable => json!(["unreachable"]),
                TerminatorKind::Drop { place, target, unwind } => {
                    let pty = place.ty(b.locals()).ok();
                    let mut glue = json!(null);
                    if let Some(t) = pty {
                        let i = Instance::resolve_drop_in_place(t);
                        if !i.is_empty_shim() {
                            glue = json!({"name": i.name(), "ty": self.ty(t)});
                        }
                    }
                    json!(["drop", self.place(place), target, glue, unwind_v(unwind)])
                }
                TerminatorKind::Call { func, args, destination, target, unwind } => {
                    let f = self.callee(func, b.locals());
                    let a: Vec<Value> = args.iter().map(|o| self.operand(o)).collect();
                    json!(["call", f, a, self.place(destination), target, unwind_v(unwind)])
                }
                TerminatorKind::Assert { cond, expected, msg, target, .. } => {
                    let d = msg.description().unwrap_or("assert").to_string();
                    let kind = match msg {
                        AssertMessage::BoundsCheck { .. } => "bounds",
                        AssertMessage::Overflow(..) | AssertMessage::OverflowNeg(_) => "overflow",
                        AssertMessage::DivisionByZero(_) | AssertMessage::RemainderByZero(_) => "divzero",
                        _ => "other",
                    };
                    json!(["assert", self.operand(cond), expected, d, target, kind])
                }
                TerminatorKind::InlineAsm { .. } => json!(["asm"]),
            };
            let sp = bb.terminator.span.get_lines();
            blocks.push(json!({"s": stmts, "t": term, "l": sp.start_line}));
        }
        let mut dbg = serde_json::Map::new();
        for v in &b.var_debug_info {
            if let Some(l) = v.local() {
                dbg.insert(l.to_string(), json!(v.name));
            }
        }
        json!({"locals": locals, "argc": b.arg_locals().len(), "spread": b.spread_arg(),
               "blocks": blocks, "dbg": dbg, "file": b.span.get_filename(), "line": b.span.get_lines().start_line})
    }

    fn describe_ty(&mut self, t: Ty) -> Value {
        let kind = t.kind();
        let size = t.layout().ok().map(|l| l.shape().size.bytes());
        let Some(r) = kind.rigid() else { return json!({"k": "other", "desc": format!("{:?}", kind)}) };
        let mut v = match r {
            RigidTy::Bool => json!({"k": "bool"}),
            RigidTy::Char => json!({"k": "char"}),
            RigidTy::Int(i) => json!({"k": "int", "w": if matches!(i, IntTy::Isize) {64} else {i.num_bytes() * 8}, "s": true}),
            RigidTy::Uint(i) => json!({"k": "int", "w": if matches!(i, UintTy::Usize) {64} else {i.num_bytes() * 8}, "s": false}),
            RigidTy::Float(_) => json!({"k": "float"}),
            RigidTy::Adt(def, args) => {
                let ak = match def.kind() {
                    AdtKind::Enum => "enum",
                    AdtKind::Struct => "struct",
                    AdtKind::Union => "union",
                };
                let mut variants = vec![];
                for (i, var) in def.variants_iter().enumerate() {
                    let discr = if def.kind() == AdtKind::Enum {
                        def.discriminant_for_variant(VariantIdx::to_val(i)).val.to_string()
                    } else {
                        "0".to_string()
                    };
                    let mut fields = vec![];
                    for f in var.fields() {
                        let ft = catch_unwind(AssertUnwindSafe(|| f.ty_with_args(args))).ok();
                        fields.push(json!({"name": f.name, "ty": ft.map(|t| self.ty(t))}));
                    }
                    variants.push(json!({"name": var.name(), "discr": discr, "fields": fields}));
                }
                let targs: Vec<Value> = args.0.iter().filter_map(|a| a.ty().map(|t| json!(self.ty(*t)))).collect();
                json!({"k": "adt", "adt": ak, "name": def.name(), "variants": variants, "targs": targs, "is_box": def.is_box()})
            }
            RigidTy::Str => json!({"k": "str"}),
            RigidTy::Array(e, n) => json!({"k": "array", "of": self.ty(*e), "n": n.eval_target_usize().ok()}),
            RigidTy::Slice(e) => json!({"k": "slice", "of": self.ty(*e)}),
            RigidTy::RawPtr(p, m) => json!({"k": "ptr", "to": self.ty(*p), "mut": *m == Mutability::Mut}),
            RigidTy::Ref(_, p, m) => json!({"k": "ref", "to": self.ty(*p), "mut": *m == Mutability::Mut}),
            RigidTy::FnDef(def, _) => json!({"k": "fndef", "name": def.name()}),
            RigidTy::FnPtr(_) => json!({"k": "fnptr"}),
            RigidTy::Closure(def, _) => json!({"k": "closure", "name": def.name()}),
            RigidTy::Coroutine(def, args) => {
                let mut discrs = vec![];
                for i in 0..8usize {
                    let d = catch_unwind(AssertUnwindSafe(|| def.discriminant_for_variant(args, VariantIdx::to_val(i))));
                    match d {
                        Ok(d) => discrs.push(d.val.to_string()),
                        Err(_) => break,
                    }
                }
                let mut v = json!({"k": "coroutine", "name": def.name(), "discrs": discrs});
                if let Some(GenericArgKind::Type(up)) = args.0.last() {
                    let uk = up.kind();
                    if let Some(RigidTy::Tuple(ts)) = uk.rigid() {
                        let ids: Vec<usize> = ts.iter().map(|t| self.ty(*t)).collect();
                        v["upvar_tys"] = json!(ids);
                    }
                }
                if let Ok(l) = t.layout() {
                    let sh = l.shape();
                    if let FieldsShape::Arbitrary { offsets } = &sh.fields {
                        v["prefix_offsets"] = json!(offsets.iter().map(|o| o.bytes()).collect::<Vec<_>>());
                    }
                    if let VariantsShape::Multiple { variants, tag_field, .. } = &sh.variants {
                        let vo: Vec<Vec<usize>> = variants.iter().map(|vf| vf.offsets.iter().map(|o| o.bytes()).collect()).collect();
                        v["variant_offsets"] = json!(vo);
                        v["tag_field"] = json!(tag_field);
                    }
                }
                v
            }
            RigidTy::Dynamic(preds, _) => {
                let names: Vec<String> = preds.iter().map(|p| format!("{:?}", p.value)).collect();
                let tp = kind.trait_principal().map(|p| p.skip_binder().def_id.name());
                json!({"k": "dyn", "trait": tp, "preds": names.len()})
            }
            RigidTy::Never => json!({"k": "never"}),
            RigidTy::Pat(inner, _) => json!({"k": "pat", "of": self.ty(*inner)}),
            RigidTy::Tuple(ts) => {
                let tys: Vec<usize> = ts.iter().map(|t| self.ty(*t)).collect();
                json!({"k": "tuple", "tys": tys})
            }
            other => json!({"k": "other", "desc": format!("{:?}", other)}),
        };
        v["size"] = json!(size);
        v["s_"] = json!(format!("{}", t));
        v
    }

    fn run(&mut self, roots: Vec<Instance>) -> Value {
        let mut root_names = vec![];
        for r in roots {
            let v = self.inst_ref(r);
            root_names.push(v);
        }
        while let Some(i) = self.queue.pop_front() {
            let m = i.mangled_name();
            let name = i.name();
            let def_name = i.def.def_id().name();
            let stopped = self.stop.iter().any(|p| def_name.starts_with(p.as_str()) || name.starts_with(p.as_str()));
            let mut entry = json!({"name": name, "def": def_name, "kind": ikind(&i)});
            if let Some(n) = i.intrinsic_name() {
                entry["intrinsic"] = json!(n);
            }
            if let Ok(abi) = i.fn_abi() {
                let at: Vec<usize> = abi.args.iter().map(|a| self.ty(a.ty)).collect();
                entry["arg_tys"] = json!(at);
                entry["ret_ty"] = json!(self.ty(abi.ret.ty));
            }
            {
                let ik = i.ty().kind();
                if let Some(sig) = catch_unwind(AssertUnwindSafe(|| ik.fn_sig())).ok().flatten() {
                    if matches!(sig.skip_binder().abi, Abi::RustCall) {
                        entry["rust_call"] = json!(true);
                    }
                }
            }
            // iterator drivers summarised by mirsym: pre-resolve IntoIterator::into_iter and
            // Iterator::next for their iterator argument so that the summary can drive the real code
            if (def_name.contains("FromIterator") && def_name.ends_with("::from_iter"))
                || (def_name.contains("Extend<") && def_name.ends_with("::extend"))
            {
                let last_ty = i.args().0.iter().rev().find_map(|a| a.ty().copied());
                if let (Some(it_ty), Some(ii), Some(nx)) = (last_ty, self.into_iter_def, self.next_def) {
                    let a1 = GenericArgs(vec![GenericArgKind::Type(it_ty)]);
                    if let Ok(into_inst) = Instance::resolve(ii, &a1) {
                        let ret = into_inst.fn_abi().ok().map(|a| a.ret.ty);
                        entry["into_iter"] = self.inst_ref(into_inst);
                        if let Some(rt) = ret {
                            let a2 = GenericArgs(vec![GenericArgKind::Type(rt)]);
                            if let Ok(next_inst) = Instance::resolve(nx, &a2) {
                                entry["iter_next"] = self.inst_ref(next_inst);
                                entry["iter_ty"] = json!(self.ty(rt));
                            }
                        }
                    }
                }
            }
            let targs: Vec<Value> = i.args().0.iter().filter_map(|a| a.ty().map(|t| json!(self.ty(*t)))).collect();
            entry["targs"] = json!(targs);
            if stopped {
                entry["stopped"] = json!(true);
            } else if matches!(i.kind, InstanceKind::Virtual { .. }) {
                // no body: dispatched at run time through the vtable table
            } else if i.has_body() || matches!(i.kind, InstanceKind::Shim) {
                let body = catch_unwind(AssertUnwindSafe(|| i.body()));
                match body {
                    Ok(Some(b)) => entry["body"] = self.body(&b),
                    Ok(None) => {}
                    Err(_) => entry["body_error"] = json!(true),
                }
            }
            self.fns.insert(m, entry);
        }
        while self.ty_done < self.ty_list.len() {
            let t = self.ty_list[self.ty_done];
            let id = self.ty_done;
            self.ty_done += 1;
            let d = catch_unwind(AssertUnwindSafe(|| self.describe_ty(t)))
                .unwrap_or_else(|_| json!({"k": "other", "desc": "panic"}));
            self.types.insert(id.to_string(), d);
        }
        json!({"roots": root_names, "fns": self.fns, "types": self.types, "vtables": self.vtables, "statics": self.statics})
    }
}

fn dump() -> ControlFlow<()> {
    let out = std::env::var("MIRDUMP_OUT").expect("MIRDUMP_OUT");
    let stop: Vec<String> = std::env::var("MIRDUMP_STOP")
        .unwrap_or_default()
        .split('|')
        .filter(|s| !s.is_empty())
        .map(|s| s.to_string())
        .collect();
    let mut roots = vec![];
    for item in rustc_public::all_local_items() {
        if item.kind() != ItemKind::Fn {
            continue;
        }
        let name = item.name();
        let last = name.rsplit("::").next().unwrap_or("");
        if !last.starts_with("h_") {
            continue;
        }
        if let Ok(i) = Instance::try_from(item) {
            roots.push(i);
        }
    }
    let mut d = Dumper {
        fns: BTreeMap::new(),
        queue: VecDeque::new(),
        seen: HashSet::new(),
        types: BTreeMap::new(),
        ty_ids: HashMap::new(),
        ty_list: vec![],
        ty_done: 0,
        vtables: BTreeMap::new(),
        stop,
        statics: BTreeMap::new(),
        next_def: find_trait_fn("iter::Iterator", "next"),
        into_iter_def: find_trait_fn("iter::IntoIterator", "into_iter"),
    };
    eprintln!("mirdump: Iterator::next {:?} IntoIterator::into_iter {:?}", d.next_def.map(|d| d.name()), d.into_iter_def.map(|d| d.name()));
    let v = d.run(roots);
    std::fs::write(&out, serde_json::to_string(&v).unwrap()).expect("write MIRDUMP_OUT");
    eprintln!("mirdump: {} fns, {} types -> {}", d.fns.len(), d.types.len(), out);
    ControlFlow::Continue(())
}

fn main() {
    let mut args: Vec<String> = std::env::args().collect();
    let target = std::env::var("MIRDUMP_CRATE").unwrap_or_default();
    let is_target = !target.is_empty()
        && args.windows(2).any(|w| w[0] == "--crate-name" && w[1] == target)
        && !args.iter().any(|a| a.starts_with("--print"));
    if !args.iter().any(|a| a.starts_with("--print") || a == "-vV" || a == "-V") {
        args.push("-Zalways-encode-mir".to_string());
    }
    if is_target {
        let _ = run!(&args, dump);
    } else {
        struct Nop;
        impl rustc_driver::Callbacks for Nop {}
        rustc_driver::run_compiler(&args, &mut Nop);
    }
}

#[allow(dead_code)]
fn _unused(_: CrateItem) {}
