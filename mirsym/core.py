"""mirsym core: a forking symbolic executor over the monomorphic MIR that
`mirdump` (a rustc driver, see /verif/mirdump) emits from /repo's current
source.  Scalars are z3 bit-vector terms (or Python ints when concrete),
aggregates are interpreter objects, std containers (String/str/Vec/slices/
HashMap/...) are value-level objects handled by summaries (summaries.py);
everything whose MIR body is pure logic - all of xot, indextree, and most of
core - is interpreted, never summarised.
"""
import json
import re
import sys
import time

import z3

# ---------------------------------------------------------------------------
# exceptions / control


class Unsupported(Exception):
    """The MIR uses something mirsym has no semantics for -> inconclusive."""


class PathEnd(Exception):
    """Current path terminates (panic, assume-false, unreachable...)."""

    def __init__(self, kind, msg=""):
        self.kind = kind
        self.msg = msg


class ForkRequest(Exception):
    """Raised by a summary (via Machine.decide/concretize) when the current
    call has to be re-executed once per alternative."""

    def __init__(self, alts):
        # alts: list of (condition term or None, decision value)
        self.alts = alts


class Budget(Exception):
    pass


# ---------------------------------------------------------------------------
# values


class Cell:
    __slots__ = ("v",)

    def __init__(self, v=None):
        self.v = v


class Agg:
    """struct / enum / tuple / closure value. var = variant index (concrete)."""

    __slots__ = ("ty", "var", "f")

    def __init__(self, ty, var, f):
        self.ty = ty
        self.var = var
        self.f = f

    def __repr__(self):
        return "Agg(ty=%s,var=%s,%r)" % (self.ty, self.var, self.f)


class Ptr:
    """reference / raw pointer / (inside Box) owning pointer.
    cell+path designate a location; meta: None | ('vt', key) | ('slice', start, len)"""

    __slots__ = ("cell", "path", "meta")

    def __init__(self, cell, path=(), meta=None):
        self.cell = cell
        self.path = path
        self.meta = meta

    def __repr__(self):
        return "Ptr(%x,%r,%r)" % (id(self.cell) & 0xFFFFFF, self.path, self.meta)


class StrRef:
    """a `&str`: immutable sequence of code-point terms."""

    __slots__ = ("chars",)

    def __init__(self, chars):
        self.chars = tuple(chars)

    def __repr__(self):
        return "StrRef(%s)" % show_chars(self.chars)


class StrBuf:
    """a `String` (by value): mutable list of code-point terms."""

    __slots__ = ("chars",)

    def __init__(self, chars=()):
        self.chars = list(chars)

    def __repr__(self):
        return "StrBuf(%s)" % show_chars(self.chars)


class VecVal:
    """Vec<T> / array / boxed slice contents."""

    __slots__ = ("items",)

    def __init__(self, items=()):
        self.items = list(items)

    def __repr__(self):
        return "VecVal(%r)" % (self.items,)


class ByteArr(VecVal):
    """the UTF-8 bytes of an (immutable) str, remembering the code points:
    items = byte terms, chars = code-point terms, starts[i] = byte offset of
    char i (len(chars)+1 entries).  Treated as immutable, shared by clones."""

    __slots__ = ("chars", "starts")


class BytesRef(StrRef):
    """`&[u8]` obtained from `str::as_bytes`, kept lazy (code points) until
    somebody looks at individual bytes."""

    __slots__ = ()


class MapVal:
    """HashMap / HashSet as an association list (keys compared structurally)."""

    __slots__ = ("entries", "idx", "idx_sym", "idx_n")

    def __init__(self, entries=()):
        self.entries = [list(e) for e in entries]
        self.idx = None      # fingerprint of a concrete key -> entry index (built lazily by summaries.map_find)
        self.idx_sym = None  # indices of entries whose key is not concrete
        self.idx_n = 0       # entries indexed so far (appends are indexed incrementally)

    def touched(self):
        """call after any removal / reordering / key overwrite"""
        self.idx = None


class FnVal:
    __slots__ = ("info", "closure")

    def __init__(self, info, closure=False):
        self.info = info
        self.closure = closure  # fn pointer made from a non-capturing closure


class Obj:
    """summary-private mutable object (iterators etc.): dict-like with clone."""

    __slots__ = ("kind", "d")

    def __init__(self, kind, **d):
        self.kind = kind
        self.d = d

    def __repr__(self):
        return "Obj(%s,%r)" % (self.kind, self.d)


def show_chars(chars):
    out = []
    for c in chars:
        if isinstance(c, int):
            out.append(chr(c) if 32 <= c < 127 else "\\u{%x}" % c)
        else:
            out.append("<%s>" % c)
    return '"' + "".join(out) + '"'


def clone_value(v, memo):
    """deep copy preserving aliasing between cells (for state forks)."""
    t = type(v)
    if v is None or t is int or t is bool or t is str:
        return v
    if t is Ptr:
        c = v.cell
        nc = memo.get(id(c))
        if nc is None:
            nc = clone_cell(c, memo)
        return Ptr(nc, v.path, v.meta)
    if t is Agg:
        k = id(v)
        r = memo.get(k)
        if r is None:
            r = Agg(v.ty, v.var, None)
            memo[k] = r
            r.f = [clone_value(x, memo) for x in v.f]
        return r
    if t is StrRef or t is FnVal or t is BytesRef or t is ByteArr:
        return v
    if t is StrBuf:
        return StrBuf(v.chars)
    if t is VecVal:
        k = id(v)
        r = memo.get(k)
        if r is None:
            r = VecVal()
            memo[k] = r
            r.items = [clone_value(x, memo) for x in v.items]
        return r
    if t is MapVal:
        r = MapVal()
        r.entries = [[clone_value(k, memo), clone_value(x, memo)] for k, x in v.entries]
        return r
    if t is Obj:
        k = id(v)
        r = memo.get(k)
        if r is None:
            r = Obj(v.kind)
            memo[k] = r
            r.d = {a: clone_value(b, memo) for a, b in v.d.items()}
        return r
    if t is tuple:
        return tuple(clone_value(x, memo) for x in v)
    if t is list:
        return [clone_value(x, memo) for x in v]
    if t is dict:
        return {k: clone_value(x, memo) for k, x in v.items()}
    if t is Cont:
        return Cont(v.fn, clone_value(v.data, memo))
    if t is Cell:
        return clone_cell(v, memo)
    # z3 terms are immutable
    return v


def clone_cell(c, memo):
    k = id(c)
    r = memo.get(k)
    if r is None:
        r = Cell()
        memo[k] = r
        r.v = clone_value(c.v, memo)
    return r


def copy_value(v):
    """`copy`/assignment semantics: duplicate inline aggregate storage, keep
    pointers as pointers (no deep clone of pointees)."""
    t = type(v)
    if t is Agg:
        return Agg(v.ty, v.var, [copy_value(x) for x in v.f])
    if t is StrBuf:
        return StrBuf(v.chars)
    if t is VecVal:
        return VecVal([copy_value(x) for x in v.items])
    if t is MapVal:
        return MapVal([[copy_value(k), copy_value(x)] for k, x in v.entries])
    if t is Obj:
        return Obj(v.kind, **{a: copy_value(b) for a, b in v.d.items()})
    return v


# ---------------------------------------------------------------------------
# scalar helpers

BoolT = (bool, z3.BoolRef)


def is_sym(x):
    return isinstance(x, z3.ExprRef)


def mask(w):
    return (1 << w) - 1


def to_signed(v, w):
    return v - (1 << w) if v >> (w - 1) else v


def bv(x, w):
    if isinstance(x, int) and not isinstance(x, bool):
        return z3.BitVecVal(x, w)
    if isinstance(x, bool):
        return z3.BitVecVal(1 if x else 0, w)
    if z3.is_bool(x):
        return z3.If(x, z3.BitVecVal(1, w), z3.BitVecVal(0, w))
    return x


def zbool(x):
    if isinstance(x, bool):
        return z3.BoolVal(x)
    return x


def simp(t):
    if is_sym(t):
        t = z3.simplify(t)
        if z3.is_bv_value(t):
            return t.as_long()
        if z3.is_true(t):
            return True
        if z3.is_false(t):
            return False
    return t


def b_not(a):
    if isinstance(a, bool):
        return not a
    return simp(z3.Not(a))


def b_and(*xs):
    out = []
    for x in xs:
        if x is False:
            return False
        if x is True:
            continue
        out.append(x)
    if not out:
        return True
    if len(out) == 1:
        return out[0]
    return simp(z3.And(*out))


def b_or(*xs):
    out = []
    for x in xs:
        if x is True:
            return True
        if x is False:
            continue
        out.append(x)
    if not out:
        return False
    if len(out) == 1:
        return out[0]
    return simp(z3.Or(*out))


def v_eq(a, b, w=32):
    """equality of two scalars (ints / terms) -> bool or z3 Bool"""
    if isinstance(a, bool) or isinstance(b, bool) or z3.is_bool(a) or z3.is_bool(b):
        if isinstance(a, bool) and isinstance(b, bool):
            return a == b
        return simp(zbool(a) == zbool(b))
    if isinstance(a, int) and isinstance(b, int):
        return a == b
    if is_sym(a):
        w = a.size()
    elif is_sym(b):
        w = b.size()
    return simp(bv(a, w) == bv(b, w))


def v_ite(c, a, b, w):
    if c is True:
        return a
    if c is False:
        return b
    if isinstance(a, BoolT) or isinstance(b, BoolT):
        return simp(z3.If(c, zbool(a), zbool(b)))
    return simp(z3.If(c, bv(a, w), bv(b, w)))


# ---------------------------------------------------------------------------
# program


class Program:
    def __init__(self, path):
        with open(path) as f:
            d = json.load(f)
        self.fns = d["fns"]
        self.types = {int(k): v for k, v in d["types"].items()}
        for i, t in list(self.types.items()):
            seen = 0
            while t["k"] == "pat" and seen < 5:
                inner = self.types[t["of"]]
                t = dict(inner, s_=t.get("s_"), pat_of=t["of"])
                seen += 1
            self.types[i] = t
        self.vtables = d["vtables"]
        self.statics = d.get("statics", {})
        self.roots = {r["name"].split("::")[-1]: r for r in d["roots"]}
        self._tyname_cache = {}
        for m, f in self.fns.items():
            f["m"] = m

    def ty(self, i):
        return self.types[i]

    def tyname(self, i):
        return self.types[i].get("s_", "?")

    def scalar_info(self, tid):
        """(kind, width, signed) for scalar types, else None"""
        t = self.types[tid]
        k = t["k"]
        if k == "int":
            return ("int", t["w"], t["s"])
        if k == "bool":
            return ("bool", 8, False)
        if k == "char":
            return ("char", 32, False)
        if k in ("ptr", "ref", "fnptr"):
            return ("ptr", 64, False)
        return None

    def find_ty(self, s):
        r = self._tyname_cache.get(s)
        if r is None:
            for i, t in self.types.items():
                if t.get("s_") == s:
                    r = i
                    break
            self._tyname_cache[s] = r
        return r


class Frame:
    __slots__ = ("fn", "body", "locals", "bb", "dest", "ret_bb", "pending")

    def __init__(self, fn, body, locals_, dest, ret_bb):
        self.fn = fn
        self.body = body
        self.locals = locals_
        self.bb = 0
        self.dest = dest
        self.ret_bb = ret_bb
        self.pending = None


class State:
    def __init__(self):
        self.frames = []
        self.pc = []  # list of z3 Bool
        self.forced = []  # decisions forced for the re-execution of the current call
        self.decisions = []  # human-readable trail of fork decisions (for samples)
        self.classes = {}  # label -> bool term (input classes seen on this path)
        self.depth = 0
        self.steps = 0
        self.emits = []
        self.cover = []
        self.statics = {}  # name -> Cell
        self.bytes_cache = {}
        self.facts = Facts()  # z3 ast id -> bool: conditions known to be implied / refuted by pc on this path
        self.pos = 0  # statement index to resume at inside the current block
        self.dlog = []  # summary decisions taken so far in the current statement
        self.end = None

    def clone(self):
        memo = {}
        s = State()
        s.pc = list(self.pc)
        s.forced = list(self.forced)
        s.decisions = list(self.decisions)
        s.classes = dict(self.classes)
        s.depth = self.depth
        s.steps = self.steps
        s.emits = list(self.emits)
        s.cover = list(self.cover)
        s.pos = self.pos
        s.dlog = list(self.dlog)
        s.facts = self.facts.fork()
        s.bytes_cache = {k: clone_cell(c, memo) for k, c in self.bytes_cache.items()}
        s.statics = {k: clone_cell(c, memo) for k, c in self.statics.items()}
        for fr in self.frames:
            nf = Frame(fr.fn, fr.body, [clone_cell(c, memo) for c in fr.locals], None, fr.ret_bb)
            nf.bb = fr.bb
            if fr.pending is not None:
                if not isinstance(fr.pending, Cont):
                    raise Unsupported("state fork while a non-cloneable continuation is pending")
                nf.pending = clone_value(fr.pending, memo)
            d = fr.dest
            if d is not None:
                nf.dest = (clone_cell(d[0], memo), d[1])
            s.frames.append(nf)
        return s


class Facts:
    """layered dict (copy-on-fork): layers are frozen and shared between the
    states created by a fork; each state writes into its own top dict"""

    __slots__ = ("top", "layers")

    def __init__(self, layers=()):
        self.top = {}
        self.layers = layers

    def get(self, k):
        v = self.top.get(k)
        if v is not None:
            return v
        for l in reversed(self.layers):
            v = l.get(k)
            if v is not None:
                return v
        return None

    def __setitem__(self, k, v):
        self.top[k] = v

    def fork(self):
        if self.top:
            self.layers = self.layers + (self.top,)
            self.top = {}
        if len(self.layers) > 24:
            merged = {}
            for l in self.layers:
                merged.update(l)
            self.layers = (merged,)
        return Facts(self.layers)


class Loc:
    """a resolved place: cell + path (tuple of ints)."""

    __slots__ = ("cell", "path", "special")

    def __init__(self, cell, path=(), special=None):
        self.cell = cell
        self.path = path
        self.special = special  # for str / slice pseudo-locations


# ---------------------------------------------------------------------------
# the machine


class Stats:
    def __init__(self):
        self.paths = 0
        self.paths_by_end = {}
        self.forks = 0
        self.queries = 0
        self.solver_s = 0.0
        self.steps = 0
        self.fns_interpreted = {}
        self.summaries_used = {}
        self.checks = 0
        self.check_queries = 0
        self.max_depth = 0
        self.fact_hits = 0


class Machine:
    def __init__(self, prog, summaries, model=None, seed=0, step_budget=2_000_000, path_budget=200_000,
                 query_timeout_ms=30000):
        self.p = prog
        self.summ = summaries
        self.model = model  # concrete mode if not None: dict name->int
        self.stats = Stats()
        self.solver = z3.Solver()
        self.solver.set("timeout", query_timeout_ms)
        if seed:
            self.solver.set("random_seed", seed & 0x7FFFFFFF)
        self.cur_pc = []
        self.symvars = {}  # name -> term (creation order preserved)
        self.step_budget = step_budget
        self.path_budget = path_budget
        self.findings = []  # list of dict(label, model, classes, decisions)
        self.known_classes = set()
        self.on_check = None
        self.summary_cache = {}
        self.samples = []
        self.inconclusive = []
        self.deadline = None
        self.trace = False
        self.state = None
        self.symvars_constraints = {}
        self.choose_filter = {}  # name -> set of allowed values (sharding)
        self.params = {}
        self.params_used = {}
        self.path_step_limit = 1_500_000
        self.check_log = {}  # label -> dict(evals, passed_concrete, queries)

    # -- solver ------------------------------------------------------------
    def sync(self, pc):
        cur = self.cur_pc
        n = 0
        m = min(len(cur), len(pc))
        while n < m and cur[n] is pc[n]:
            n += 1
        for _ in range(len(cur) - n):
            self.solver.pop()
        del cur[n:]
        for c in pc[n:]:
            self.solver.push()
            self.solver.add(c)
            cur.append(c)

    def check_sat(self, pc, extra=None, want_model=True):
        """-> 'sat' | 'unsat' | 'unknown' (and leaves the model available)"""
        self.sync(pc)
        t0 = time.time()
        self.stats.queries += 1
        if extra is not None:
            self.solver.push()
            self.solver.add(extra)
            r = self.solver.check()
            self._last_model = self.solver.model() if (want_model and r == z3.sat) else None
            self.solver.pop()
        else:
            r = self.solver.check()
            self._last_model = self.solver.model() if (want_model and r == z3.sat) else None
        self.stats.solver_s += time.time() - t0
        if r == z3.sat:
            return "sat"
        if r == z3.unsat:
            return "unsat"
        return "unknown"

    def fact_key(self, cond):
        if z3.is_not(cond):
            return cond.arg(0).get_id(), False
        return cond.get_id(), True

    def learn(self, st, cond, value=True):
        """record that `cond` has truth value `value` on this path"""
        if isinstance(cond, bool):
            return
        k, pol = self.fact_key(cond)
        st.facts[k] = ((value == pol), cond)  # keep the AST alive: ids of freed ASTs are reused

    def feasible(self, st, cond):
        if cond is True:
            return True
        if cond is False:
            return False
        k, pol = self.fact_key(cond)
        known = st.facts.get(k)
        if known is not None:
            self.stats.fact_hits += 1
            return known[0] == pol
        r = self.check_sat(st.pc, cond, want_model=False)
        if r == "unknown":
            raise Unsupported("solver returned unknown on a branch condition")
        if r == "unsat":
            st.facts[k] = ((not pol), cond)
        return r == "sat"

    def model_values(self):
        m = self._last_model
        out = {}
        for name, term in self.symvars.items():
            v = m.eval(term, model_completion=True)
            if z3.is_bv_value(v):
                out[name] = v.as_long()
            elif z3.is_true(v):
                out[name] = 1
            elif z3.is_false(v):
                out[name] = 0
            else:
                out[name] = 0
        return out

    # -- symbolic inputs -----------------------------------------------------
    def fresh(self, name, w, is_bool=False):
        if self.model is not None:
            v = int(self.model.get(name, 0))
            if is_bool:
                return v != 0
            return v & mask(w)
        if name in self.symvars:
            return self.symvars[name]
        t = z3.Bool(name) if is_bool else z3.BitVec(name, w)
        self.symvars[name] = t
        return t

    # -- decisions inside summaries -----------------------------------------
    def decide(self, cond, what=""):
        """branch on a (possibly symbolic) bool inside a summary. Must be
        called before the summary mutates any state."""
        cond = simp(cond) if is_sym(cond) else cond
        if isinstance(cond, bool):
            return cond
        st = self.state
        if st.forced:
            v = st.forced.pop(0)
            st.dlog.append(v)
            return v
        t = self.feasible(st, cond)
        f = self.feasible(st, z3.Not(cond)) if t else True
        if t and f:
            raise ForkRequest([(cond, True), (simp(z3.Not(cond)), False)])
        if t:
            self.learn(st, cond, True)
            st.dlog.append(True)
            return True
        if f:
            self.learn(st, cond, False)
            st.dlog.append(False)
            return False
        raise PathEnd("infeasible")

    def concretize(self, term, w=64, limit=64, what="value"):
        """enumerate the feasible values of a term (forking)."""
        term = simp(term)
        if isinstance(term, int):
            return term
        st = self.state
        if st.forced:
            v = st.forced.pop(0)
            st.dlog.append(v)
            return v
        vals = []
        excl = []
        while True:
            r = self.check_sat(st.pc, z3.And(*excl) if excl else None)
            if r == "unknown":
                raise Unsupported("solver unknown while concretising " + what)
            if r == "unsat":
                break
            v = self._last_model.eval(term, model_completion=True).as_long()
            vals.append(v)
            excl.append(term != v)
            if len(vals) > limit:
                raise Unsupported("more than %d feasible values for %s" % (limit, what))
        if not vals:
            raise PathEnd("infeasible")
        if len(vals) == 1:
            st.dlog.append(vals[0])
            return vals[0]
        raise ForkRequest([(simp(term == v), v) for v in vals])

    # -- places ----------------------------------------------------------------
    def place_loc(self, fr, place):
        local, proj = place
        cell = fr.locals[local]
        if not proj:
            return Loc(cell, ())
        path = ()
        special = None
        types = self.p.types
        tid = fr.body["locals"][local]
        variant = None
        for e in proj:
            if e == "deref":
                t = types.get(tid) if tid is not None else None
                if t is not None:
                    if t["k"] in ("ref", "ptr"):
                        tid = t["to"]
                    elif t["k"] == "adt" and t.get("is_box") and t["targs"]:
                        tid = t["targs"][0]
                    else:
                        tid = None
                variant = None
                v = self.read_loc(Loc(cell, path, special))
                special = None
                v = self.unwrap_ptr(v)
                if type(v) is BytesRef:
                    v = self.materialize_bytes(v.chars)
                if isinstance(v, Ptr):
                    cell, path = v.cell, v.path
                    if v.meta is not None and v.meta[0] in ("slice", "vt"):
                        special = v.meta
                elif isinstance(v, StrRef):
                    cell, path, special = Cell(v), (), ("str",)
                else:
                    raise Unsupported("deref of %r" % (v,))
                continue
            k = e[0]
            if special is not None and special[0] in ("vec_buf", "vec_len", "str_len", "str_buf"):
                # further projections below a virtual Vec/String field (RawVec internals)
                if k == "f":
                    continue
                raise Unsupported("projection %r below virtual %s" % (e, special[0]))
            if k == "f":
                t = types.get(tid) if tid is not None else None
                tn = t.get("name") if t is not None and t["k"] == "adt" else None
                if tn == "std::vec::Vec":
                    # std's optimised MIR reads Vec fields directly (inlined deref/len)
                    if special is not None and special[0] == "str_vec":
                        special = ("str_len",) if e[1] == 1 else ("str_buf",)
                    else:
                        special = ("vec_len",) if e[1] == 1 else ("vec_buf",)
                    tid = e[2]
                    continue
                if tn == "std::string::String" and e[1] == 0:
                    special = ("str_vec",)
                    tid = e[2]
                    continue
                if t is not None and t["k"] == "coroutine":
                    slot = self.coroutine_slot(t, variant, e[1], e[2])
                    if slot is None:
                        return Loc(Cell(Agg(e[2], 0, [])), ())
                    path = path + (slot,)
                else:
                    path = path + (e[1],)
                tid = e[2]
                variant = None
            elif k == "dc":
                variant = e[1]
            elif k == "idx":
                i = fr.locals[e[1]].v
                i = self.index_value(i)
                if special is not None and special[0] == "slice":
                    self.bounds(i, special[2])
                    path = path + (special[1] + i,)
                    special = None
                else:
                    path = path + (i,)
            elif k == "cidx":
                off, minlen, from_end = e[1], e[2], e[3]
                if special is not None and special[0] == "slice":
                    n = special[2]
                    i = (n - off) if from_end else off
                    path = path + (special[1] + i,)
                    special = None
                else:
                    cont = self.read_loc(Loc(cell, path))
                    n = len(cont.items)
                    i = (n - off) if from_end else off
                    path = path + (i,)
            elif k == "sub":
                frm, to, from_end = e[1], e[2], e[3]
                if special is not None and special[0] == "slice":
                    start, n = special[1], special[2]
                else:
                    cont = self.read_loc(Loc(cell, path))
                    start, n = 0, len(cont.items)
                end = (n - to) if from_end else to
                special = ("slice", start + frm, end - frm)
            elif k == "opaque":
                tid = e[1]
            else:
                raise Unsupported("projection %r" % (e,))
            if k in ("idx", "cidx"):
                t = types.get(tid) if tid is not None else None
                tid = t.get("of") if t is not None else None
        return Loc(cell, path, special)

    def coroutine_slot(self, t, variant, idx, fty):
        size = self.p.types[fty].get("size") if fty is not None else None
        if size == 0:
            return None
        if variant is None:
            off = t["prefix_offsets"][idx]
        else:
            off = t["variant_offsets"][variant][idx]
        slots = t.setdefault("_slots", {})
        key = (off, size)
        s = slots.get(key)
        if s is None:
            s = len(slots)
            slots[key] = s
            if s >= 96:
                raise Unsupported("coroutine with more than 96 saved slots")
        return s

    def new_coroutine(self, tid, upvars):
        t = self.p.types[tid]
        a = Agg(tid, 0, [None] * 96)
        utys = t.get("upvar_tys") or []
        for i, v in enumerate(upvars):
            fty = utys[i] if i < len(utys) else None
            slot = self.coroutine_slot(t, None, i, fty)
            if slot is not None:
                a.f[slot] = v
        return a

    def index_value(self, i):
        if is_sym(i):
            return self.concretize(i, 64, what="index")
        return i

    def bounds(self, i, n):
        if not (0 <= i < n):
            raise PathEnd("panic", "index out of bounds (slice)")

    def unwrap_ptr(self, v):
        """Box<T> / NonNull<T> / Unique<T> ... -> inner Ptr"""
        while isinstance(v, Agg):
            if not v.f:
                raise Unsupported("deref of empty aggregate")
            v = v.f[0]
        return v

    def read_loc(self, loc):
        v = loc.cell.v
        for i in loc.path:
            t = type(v)
            if i == "map" or i == "mapkey":
                v = ("mapslot", v, 1 if i == "map" else 0)
                continue
            if t is tuple and v and v[0] == "mapslot":
                v = v[1].entries[i][v[2]]
                continue
            if t is Agg:
                v = v.f[i]
            elif t is VecVal or t is ByteArr:
                if not (0 <= i < len(v.items)):
                    raise PathEnd("panic", "index out of bounds")
                v = v.items[i]
            elif v is None:
                raise Unsupported("read through uninitialised value")
            else:
                raise Unsupported("projection into %s" % type(v).__name__)
        if loc.special is not None:
            sk = loc.special[0]
            if sk == "str" or sk == "vt":
                return v
            if sk == "vec_len":
                if not isinstance(v, VecVal):
                    raise Unsupported("Vec.len of %r" % (v,))
                n = 0
                for x in v.items:
                    if isinstance(x, tuple) and x[0] == "ch":
                        n = n + self.utf8_len(x[1]) if isinstance(n, int) and isinstance(self.utf8_len(x[1]), int) \
                            else simp(bv(n, 64) + bv(self.utf8_len(x[1]), 64))
                    else:
                        n = n + 1 if isinstance(n, int) else simp(n + 1)
                return n
            if sk == "vec_buf":
                return Ptr(loc.cell, loc.path + (0,))
            if sk == "str_len":
                return self.str_byte_len(v.chars)
            if sk == "str_buf":
                sp = self.materialize_bytes(tuple(v.chars))
                return Ptr(sp.cell, sp.path + (0,))
            if sk == "str_vec":
                return BytesRef(tuple(v.chars))
            # a slice pseudo-location is only meaningful under & / len
            return ("slice_place", loc)
        return v

    def write_loc(self, loc, val):
        if loc.special is not None:
            if loc.special[0] == "vec_len":
                v = self.read_loc(Loc(loc.cell, loc.path))
                n = self.index_value(val)
                if n <= len(v.items):
                    del v.items[n:]
                else:
                    v.items.extend([None] * (n - len(v.items)))
                return
            raise Unsupported("write to unsized/virtual place")
        if not loc.path:
            loc.cell.v = val
            return
        v = loc.cell.v
        if v is None:
            v = loc.cell.v = Agg(None, 0, [])
        for i in loc.path[:-1]:
            t = type(v)
            if i == "map" or i == "mapkey":
                v = ("mapslot", v, 1 if i == "map" else 0)
                continue
            if t is tuple and v and v[0] == "mapslot":
                v = v[1].entries[i][v[2]]
                continue
            if t is Agg:
                if i >= len(v.f):
                    v.f.extend([None] * (i + 1 - len(v.f)))
                nxt = v.f[i]
                if nxt is None:
                    nxt = v.f[i] = Agg(None, 0, [])
                v = nxt
            elif t is VecVal:
                v = v.items[i]
            else:
                raise Unsupported("write projection into %s" % t.__name__)
        i = loc.path[-1]
        t = type(v)
        if t is tuple and v and v[0] == "mapslot":
            v[1].entries[i][v[2]] = val
            if v[2] == 0:
                v[1].touched()
        elif t is Agg:
            if i >= len(v.f):
                v.f.extend([None] * (i + 1 - len(v.f)))
            v.f[i] = val
        elif t is VecVal:
            if not (0 <= i < len(v.items)):
                raise PathEnd("panic", "index out of bounds")
            v.items[i] = val
        else:
            raise Unsupported("write projection into %s" % t.__name__)

    def init_agg_for_write(self, fr, place):
        """fieldwise initialisation of an uninitialised local: build the Agg
        skeleton from the static type."""
        local, proj = place
        cell = fr.locals[local]
        if cell.v is not None:
            return False
        tid = fr.body["locals"][local]
        var = 0
        for e in proj:
            if e == "deref":
                return False
            if e[0] == "dc":
                var = e[1]
                break
            if e[0] == "f":
                break
        cell.v = self.skeleton(tid, var)
        return True

    def skeleton(self, tid, var=0):
        t = self.p.types[tid]
        k = t["k"]
        if k == "adt":
            n = len(t["variants"][var]["fields"])
            return Agg(tid, var, [None] * n)
        if k == "tuple":
            return Agg(tid, 0, [None] * len(t["tys"]))
        if k in ("closure", "coroutine"):
            return Agg(tid, 0, [None] * 16)
        raise Unsupported("skeleton for type kind " + k)

    # -- operands / rvalues ----------------------------------------------------
    def const_value(self, c, tid):
        if "int" in c:
            v = int(c["int"])
            t = self.p.types[tid]
            if t["k"] == "bool":
                return v != 0
            return v
        if "str" in c:
            return StrRef([ord(ch) for ch in c["str"]])
        if "agg" in c:
            return Agg(tid, c["agg"], [self.const_nested(x, tid, c["agg"], i) for i, x in enumerate(c["fields"])])
        if "fndef" in c:
            return FnVal(c["fndef"])
        if "fnptr" in c:
            return FnVal(c["fnptr"])
        if "ref" in c:
            inner = c["ref"]
            t = self.p.types[tid]
            to = t.get("to")
            if "array" in inner:
                items = [self.const_value(x, self.elem_ty(to)) for x in inner["array"]]
                cell = Cell(VecVal(items))
                tt = self.p.types[to] if to is not None else None
                if tt is not None and tt["k"] == "slice":
                    return Ptr(cell, (), ("slice", 0, len(items)))
                return Ptr(cell, ())
            return Ptr(Cell(self.const_value(inner, to)), ())
        if "array" in c:
            ety = self.elem_ty(tid)
            return VecVal([self.const_value(x, ety) for x in c["array"]])
        if "static" in c:
            name = c["static"]
            st = self.state
            cell = st.statics.get(name)
            if cell is None:
                s = self.p.statics.get(name)
                if not s or "val" not in s:
                    raise Unsupported("static %s" % name)
                cell = Cell(self.const_value(s["val"], s["ty"]))
                st.statics[name] = cell
            return Ptr(cell, ())
        if "uninit" in c:
            return None
        if "ptr_int" in c:
            return Ptr(Cell(None), (), ("dangling", c.get("ptr_int")))
        raise Unsupported("constant %r" % (c,))

    def elem_ty(self, tid):
        if tid is None:
            return None
        t = self.p.types[tid]
        return t.get("of")

    def const_nested(self, x, tid, var, i):
        t = self.p.types[tid]
        k = t["k"]
        fty = None
        if k == "adt":
            fty = t["variants"][var]["fields"][i]["ty"]
        elif k == "tuple":
            fty = t["tys"][i]
        if fty is None:
            if "int" in x:
                return int(x["int"])
            raise Unsupported("nested constant without type")
        return self.const_value(x, fty)

    def operand(self, fr, op):
        k = op[0]
        if k == "copy":
            pl = op[1]
            if not pl[1]:
                v = fr.locals[pl[0]].v
            else:
                v = self.read_loc(self.place_loc(fr, pl))
            t = type(v)
            if t is int or t is bool or t is Ptr:
                return v
            if t is Agg or t is VecVal or t is StrBuf or t is MapVal or t is Obj:
                return copy_value(v)
            return v
        if k == "move":
            pl = op[1]
            if not pl[1]:
                return fr.locals[pl[0]].v
            return self.read_loc(self.place_loc(fr, pl))
        if k == "const":
            return self.const_value(op[1], op[2])
        if k == "rtcheck":
            return False
        raise Unsupported("operand " + k)

    def binop(self, op, a, b, tid):
        info = self.p.scalar_info(tid) if tid is not None else None
        if isinstance(a, (Ptr, StrRef, FnVal)) or isinstance(b, (Ptr, StrRef, FnVal)):
            return self.ptr_binop(op, a, b)
        if info is None:
            # unit / zst comparisons etc.
            raise Unsupported("binop %s on type %s" % (op, self.p.tyname(tid) if tid is not None else "?"))
        kind, w, signed = info
        if kind == "bool":
            return self.bool_binop(op, a, b)
        ca = isinstance(a, int)
        cb = isinstance(b, int)
        if ca and cb:
            return self.conc_binop(op, a, b, w, signed)
        if op in ("Shl", "Shr", "ShlUnchecked", "ShrUnchecked"):
            # rhs may have a different width
            if is_sym(b):
                if b.size() > w:
                    b = z3.Extract(w - 1, 0, b)
                elif b.size() < w:
                    b = z3.ZeroExt(w - b.size(), b)
            else:
                b = b % w
        if not (is_sym(a) or isinstance(a, int)) or not (is_sym(b) or isinstance(b, int)):
            raise Unsupported("binop %s on %r, %r" % (op, a, b))
        x = bv(a, w)
        y = bv(b, w)
        if op in ("Add", "AddUnchecked"):
            r = x + y
        elif op in ("Sub", "SubUnchecked"):
            r = x - y
        elif op in ("Mul", "MulUnchecked"):
            r = x * y
        elif op == "BitXor":
            r = x ^ y
        elif op == "BitAnd":
            r = x & y
        elif op == "BitOr":
            r = x | y
        elif op in ("Shl", "ShlUnchecked"):
            r = x << (y & (w - 1))
        elif op in ("Shr", "ShrUnchecked"):
            r = (x >> (y & (w - 1))) if signed else z3.LShR(x, y & (w - 1))
        elif op == "Eq":
            r = x == y
        elif op == "Ne":
            r = x != y
        elif op == "Lt":
            r = (x < y) if signed else z3.ULT(x, y)
        elif op == "Le":
            r = (x <= y) if signed else z3.ULE(x, y)
        elif op == "Gt":
            r = (x > y) if signed else z3.UGT(x, y)
        elif op == "Ge":
            r = (x >= y) if signed else z3.UGE(x, y)
        elif op in ("Div", "Rem"):
            if cb and b == 0:
                raise PathEnd("panic", "division by zero")
            if op == "Div":
                r = (x / y) if signed else z3.UDiv(x, y)
            else:
                r = z3.SRem(x, y) if signed else z3.URem(x, y)
        elif op == "Cmp":
            lt = (x < y) if signed else z3.ULT(x, y)
            if self.decide(x == y, "cmp-eq"):
                return ("ordering", 1)
            if self.decide(lt, "cmp-lt"):
                return ("ordering", 0)
            return ("ordering", 2)
        else:
            raise Unsupported("binop " + op)
        return simp(r)

    def conc_binop(self, op, a, b, w, signed):
        m = mask(w)
        if op in ("Add", "AddUnchecked"):
            return (a + b) & m
        if op in ("Sub", "SubUnchecked"):
            return (a - b) & m
        if op in ("Mul", "MulUnchecked"):
            return (a * b) & m
        if op == "BitXor":
            return a ^ b
        if op == "BitAnd":
            return a & b
        if op == "BitOr":
            return a | b
        if op in ("Shl", "ShlUnchecked"):
            return (a << (b % w)) & m
        if op in ("Shr", "ShrUnchecked"):
            if signed:
                return (to_signed(a, w) >> (b % w)) & m
            return a >> (b % w)
        if signed:
            sa, sb = to_signed(a, w), to_signed(b, w)
        else:
            sa, sb = a, b
        if op == "Eq":
            return a == b
        if op == "Ne":
            return a != b
        if op == "Lt":
            return sa < sb
        if op == "Le":
            return sa <= sb
        if op == "Gt":
            return sa > sb
        if op == "Ge":
            return sa >= sb
        if op == "Div":
            if b == 0:
                raise PathEnd("panic", "division by zero")
            q = abs(sa) // abs(sb)
            if (sa < 0) != (sb < 0):
                q = -q
            return q & m
        if op == "Rem":
            if b == 0:
                raise PathEnd("panic", "remainder by zero")
            r = abs(sa) % abs(sb)
            if sa < 0:
                r = -r
            return r & m
        if op == "Cmp":
            return ("ordering", 0 if sa < sb else (1 if sa == sb else 2))
        raise Unsupported("binop " + op)

    def bool_binop(self, op, a, b):
        if isinstance(a, bool) and isinstance(b, bool):
            if op == "BitAnd":
                return a and b
            if op == "BitOr":
                return a or b
            if op == "BitXor" or op == "Ne":
                return a != b
            if op == "Eq":
                return a == b
            if op == "Lt":
                return (not a) and b
            if op == "Le":
                return (not a) or b
            if op == "Gt":
                return a and not b
            if op == "Ge":
                return a or not b
            raise Unsupported("bool binop " + op)
        x, y = zbool(a), zbool(b)
        if op == "BitAnd":
            return simp(z3.And(x, y))
        if op == "BitOr":
            return simp(z3.Or(x, y))
        if op in ("BitXor", "Ne"):
            return simp(z3.Xor(x, y))
        if op == "Eq":
            return simp(x == y)
        raise Unsupported("symbolic bool binop " + op)

    def ptr_binop(self, op, a, b):
        if op in ("Eq", "Ne"):
            same = self.same_ptr(a, b)
            return same if op == "Eq" else (not same)
        if op == "Offset":
            if type(a) is BytesRef:
                a = self.materialize_bytes(a.chars)
                a = Ptr(a.cell, a.path + (0,))
            if not isinstance(a, Ptr) or not a.path:
                raise Unsupported("Offset on %r" % (a,))
            n = self.index_value(b)
            if n >= (1 << 63):
                n -= 1 << 64
            return Ptr(a.cell, a.path[:-1] + (a.path[-1] + n,), a.meta)
        if op in ("Lt", "Le", "Gt", "Ge") and isinstance(a, Ptr) and isinstance(b, Ptr):
            if a.cell is b.cell and a.path[:-1] == b.path[:-1] and a.path and b.path:
                x, y = a.path[-1], b.path[-1]
                return {"Lt": x < y, "Le": x <= y, "Gt": x > y, "Ge": x >= y}[op]
        raise Unsupported("pointer binop " + op)

    def same_ptr(self, a, b):
        if isinstance(a, Ptr) and isinstance(b, Ptr):
            return a.cell is b.cell and a.path == b.path
        if isinstance(a, FnVal) and isinstance(b, FnVal):
            return a.info["fn"] == b.info["fn"]
        raise Unsupported("pointer comparison of %r and %r" % (a, b))

    def checked(self, op, a, b, tid):
        kind, w, signed = self.p.scalar_info(tid)
        if isinstance(a, int) and isinstance(b, int):
            if signed:
                sa, sb = to_signed(a, w), to_signed(b, w)
                lo, hi = -(1 << (w - 1)), (1 << (w - 1)) - 1
            else:
                sa, sb = a, b
                lo, hi = 0, mask(w)
            if op == "Add":
                r = sa + sb
            elif op == "Sub":
                r = sa - sb
            elif op == "Mul":
                r = sa * sb
            else:
                raise Unsupported("checked " + op)
            return (r & mask(w), not (lo <= r <= hi))
        x, y = bv(a, w), bv(b, w)
        if op == "Add":
            r = x + y
            if signed:
                ov = z3.Not(z3.And(z3.BVAddNoOverflow(x, y, True), z3.BVAddNoUnderflow(x, y)))
            else:
                ov = z3.Not(z3.BVAddNoOverflow(x, y, False))
        elif op == "Sub":
            r = x - y
            if signed:
                ov = z3.Not(z3.And(z3.BVSubNoOverflow(x, y), z3.BVSubNoUnderflow(x, y, True)))
            else:
                ov = z3.ULT(x, y)
        elif op == "Mul":
            r = x * y
            if signed:
                ov = z3.Not(z3.And(z3.BVMulNoOverflow(x, y, True), z3.BVMulNoUnderflow(x, y)))
            else:
                ov = z3.Not(z3.BVMulNoOverflow(x, y, False))
        else:
            raise Unsupported("checked " + op)
        return (simp(r), simp(ov))

    def unop(self, op, a, tid):
        info = self.p.scalar_info(tid) if tid is not None else None
        if op == "Not":
            if isinstance(a, bool):
                return not a
            if z3.is_bool(a):
                return simp(z3.Not(a))
            kind, w, signed = info
            if isinstance(a, int):
                return (~a) & mask(w)
            return simp(~a)
        if op == "Neg":
            kind, w, signed = info
            if isinstance(a, int):
                return (-a) & mask(w)
            return simp(-a)
        if op == "PtrMetadata":
            if isinstance(a, StrRef):
                return self.str_byte_len(a.chars)
            if isinstance(a, Ptr) and a.meta is not None and a.meta[0] == "slice":
                return a.meta[2]
            if isinstance(a, Ptr):
                return Agg(None, 0, [])
            raise Unsupported("PtrMetadata of %r" % (a,))
        raise Unsupported("unop " + op)

    def utf8_len(self, c):
        if isinstance(c, int):
            return 1 if c < 0x80 else 2 if c < 0x800 else 3 if c < 0x10000 else 4
        one = z3.BitVecVal(1, 64)
        return z3.If(z3.ULT(c, 0x80), one, z3.If(z3.ULT(c, 0x800), z3.BitVecVal(2, 64),
                     z3.If(z3.ULT(c, 0x10000), z3.BitVecVal(3, 64), z3.BitVecVal(4, 64))))

    def str_byte_len(self, chars):
        conc = 0
        syms = []
        for c in chars:
            l = self.utf8_len(c)
            if isinstance(l, int):
                conc += l
            else:
                syms.append(l)
        if not syms:
            return conc
        t = z3.BitVecVal(conc, 64)
        for s in syms:
            t = t + s
        return simp(t)

    def utf8_encode(self, c):
        """bytes of code point c (forks on the UTF-8 length class)"""
        if isinstance(c, int):
            return list(chr(c).encode("utf-8")) if not (0xD800 <= c <= 0xDFFF) else [0xEF, 0xBF, 0xBD]
        if self.decide(z3.ULT(c, 0x80), "utf8-1"):
            return [simp(z3.Extract(7, 0, c))]
        if self.decide(z3.ULT(c, 0x800), "utf8-2"):
            return [simp(z3.Extract(7, 0, 0xC0 | z3.LShR(c, 6))), simp(z3.Extract(7, 0, 0x80 | (c & 0x3F)))]
        if self.decide(z3.ULT(c, 0x10000), "utf8-3"):
            return [simp(z3.Extract(7, 0, 0xE0 | z3.LShR(c, 12))),
                    simp(z3.Extract(7, 0, 0x80 | (z3.LShR(c, 6) & 0x3F))), simp(z3.Extract(7, 0, 0x80 | (c & 0x3F)))]
        return [simp(z3.Extract(7, 0, 0xF0 | z3.LShR(c, 18))), simp(z3.Extract(7, 0, 0x80 | (z3.LShR(c, 12) & 0x3F))),
                simp(z3.Extract(7, 0, 0x80 | (z3.LShR(c, 6) & 0x3F))), simp(z3.Extract(7, 0, 0x80 | (c & 0x3F)))]

    def materialize_bytes(self, chars):
        """-> slice Ptr over a ByteArr holding the UTF-8 bytes of chars"""
        st = self.state
        key = tuple(c if isinstance(c, int) else ("z", c.get_id()) for c in chars)
        cell = st.bytes_cache.get(key)
        if cell is None:
            items = []
            starts = []
            for c in chars:
                starts.append(len(items))
                items.extend(self.utf8_encode(c))
            starts.append(len(items))
            ba = ByteArr(items)
            ba.chars = tuple(chars)
            ba.starts = starts
            cell = Cell(ba)
            st.bytes_cache[key] = cell
        return Ptr(cell, (), ("slice", 0, len(cell.v.items)))

    def bytes_to_str(self, v):
        """slice pointer over bytes -> StrRef (value of a `&str`)"""
        if isinstance(v, StrRef):
            return StrRef(v.chars)
        if not isinstance(v, Ptr) or v.meta is None or v.meta[0] != "slice":
            raise Unsupported("bytes->str of %r" % (v,))
        cont = self.read_loc(Loc(v.cell, v.path))
        start, n = v.meta[1], v.meta[2]
        if type(cont) is ByteArr:
            try:
                i = cont.starts.index(start)
                j = cont.starts.index(start + n)
            except ValueError:
                raise Unsupported("str slice of bytes not on a char boundary")
            return StrRef(cont.chars[i:j])
        if isinstance(cont, VecVal):
            items = cont.items[start:start + n]
            out = []
            raw = []
            for x in items:
                if isinstance(x, tuple) and x[0] == "ch":
                    if raw:
                        out.extend(ord(ch) for ch in bytes(raw).decode("utf-8"))
                        raw = []
                    out.append(x[1])
                elif isinstance(x, int):
                    raw.append(x)
                else:
                    raise Unsupported("bytes->str over symbolic raw bytes")
            if raw:
                out.extend(ord(ch) for ch in bytes(raw).decode("utf-8"))
            return StrRef(out)
        raise Unsupported("bytes->str of %r" % (cont,))

    def cast(self, kind, v, dst, src, extra):
        p = self.p
        if type(v) is BytesRef and kind in ("PtrToPtr", "Transmute", "MutToConstPointer"):
            dt0 = p.types[dst]
            to0 = p.types.get(dt0.get("to")) if dt0.get("to") is not None else None
            if to0 is not None and to0["k"] == "str":
                return StrRef(v.chars)
            v = self.materialize_bytes(v.chars)
        if kind in ("PtrToPtr", "Transmute") and isinstance(v, Ptr) and v.meta is not None and v.meta[0] == "slice":
            dt0 = p.types[dst]
            to0 = p.types.get(dt0.get("to")) if dt0.get("to") is not None else None
            if to0 is not None and to0["k"] == "str":
                return self.bytes_to_str(v)
        if kind in ("PtrToPtr", "Transmute") and type(v) is StrRef:
            dt0 = p.types[dst]
            to0 = p.types.get(dt0.get("to")) if dt0.get("to") is not None else None
            if to0 is not None and to0["k"] == "slice":
                return BytesRef(v.chars)
        if kind in ("IntToInt", "Transmute") and src is not None:
            si = p.scalar_info(src)
            di = p.scalar_info(dst)
            if si and di and si[0] != "ptr" and di[0] != "ptr":
                sk, sw, ss = si
                dk, dw, ds = di
                if kind == "Transmute" and sw != dw:
                    raise Unsupported("transmute between widths")
                if dk == "bool":
                    if isinstance(v, BoolT):
                        return v
                    return simp(bv(v, sw) != 0) if is_sym(v) else v != 0
                if isinstance(v, bool):
                    v = 1 if v else 0
                elif z3.is_bool(v) if is_sym(v) else False:
                    return simp(z3.If(v, z3.BitVecVal(1, dw), z3.BitVecVal(0, dw)))
                if isinstance(v, int):
                    if ss:
                        v = to_signed(v, sw)
                    return v & mask(dw)
                if dw == sw:
                    return v
                if dw < sw:
                    return simp(z3.Extract(dw - 1, 0, v))
                return simp(z3.SignExt(dw - sw, v) if ss else z3.ZeroExt(dw - sw, v))
        if kind == "Transmute":
            # same-representation transmutes (newtype <-> inner, ptr <-> ptr)
            st = p.types[src] if src is not None else None
            dt = p.types[dst]
            if dt["k"] == "adt" and dt["name"] == "std::option::Option" and (isinstance(v, int) or is_sym(v)) \
                    and "NonZero" in dt.get("s_", ""):
                # integer -> Option<NonZero<_>> (niche at 0)
                if self.decide(v_eq(v, 0), "niche-zero"):
                    return Agg(dst, 0, [])
                inner_ty = dt["variants"][1]["fields"][0]["ty"]
                return Agg(dst, 1, [self.wrap_newtype(inner_ty, v)])
            if st is not None and st["k"] == "adt" and st["name"] == "std::option::Option" and isinstance(v, Agg) \
                    and "NonZero" in st.get("s_", "") and dt["k"] == "int":
                if v.var == 0:
                    return 0
                return self.unwrap_newtype(v.f[0])
            if isinstance(v, (Ptr, StrRef, FnVal)):
                if dt["k"] in ("ptr", "ref", "fnptr"):
                    return v
                if dt["k"] == "adt":
                    return self.wrap_newtype(dst, v)
            if isinstance(v, Agg) and dt["k"] in ("ptr", "ref", "int", "char", "bool"):
                return self.unwrap_newtype(v)
            if isinstance(v, Agg) and dt["k"] == "adt":
                inner = self.unwrap_newtype(v)
                return self.wrap_newtype(dst, inner)
            if dt["k"] == "adt" and isinstance(v, int) or is_sym(v):
                return self.wrap_newtype(dst, v)
            raise Unsupported("transmute %s -> %s" % (p.tyname(src) if src is not None else "?", p.tyname(dst)))
        if kind == "PtrToPtr" and isinstance(v, Ptr) and v.meta is not None and v.meta[0] == "slice":
            dt = p.types[dst]
            to = p.types.get(dt.get("to")) if dt.get("to") is not None else None
            if to is not None and to["k"] not in ("slice", "str", "dyn"):
                return Ptr(v.cell, v.path + (v.meta[1],))
            return v
        if kind == "PtrToPtr" and isinstance(v, Ptr) and src is not None and v.meta is None:
            st_ = p.types[src]
            dt = p.types[dst]
            s_to, d_to = st_.get("to"), dt.get("to")
            path = v.path
            hops = 0
            while s_to is not None and d_to is not None and s_to != d_to and hops < 6:
                tt = p.types[s_to]
                if tt["k"] != "adt" or tt["adt"] != "struct":
                    break
                nz = [(i, f) for i, f in enumerate(tt["variants"][0]["fields"])
                      if f["ty"] is not None and p.types[f["ty"]].get("size") != 0]
                if len(nz) != 1:
                    break
                # only descend when the destination type is nested inside
                if not self.type_contains_first(nz[0][1]["ty"], d_to):
                    break
                path = path + (nz[0][0],)
                s_to = nz[0][1]["ty"]
                hops += 1
            if path is not v.path:
                return Ptr(v.cell, path)
            return v
        if kind in ("PtrToPtr", "MutToConstPointer", "FnPtrToPtr", "Subtype"):
            return v
        if kind == "Unsize":
            return self.unsize(v, dst, src, extra)
        if kind.startswith("ReifyFnPointer") or kind.startswith("ClosureFnPointer"):
            if extra and "fnptr" in extra:
                return FnVal(extra["fnptr"], closure=kind.startswith("ClosureFnPointer"))
            raise Unsupported("fn pointer cast without resolution")
        if kind == "UnsafeFnPointer":
            return v
        if kind in ("PointerExposeAddress", "PointerWithExposedProvenance"):
            raise Unsupported("pointer<->integer cast")
        raise Unsupported("cast " + kind)

    def type_contains_first(self, tid, target, depth=6):
        while depth > 0:
            if tid == target:
                return True
            t = self.p.types[tid]
            if t["k"] != "adt" or t["adt"] != "struct":
                return False
            nz = [f for f in t["variants"][0]["fields"] if f["ty"] is not None and self.p.types[f["ty"]].get("size") != 0]
            if len(nz) != 1:
                return False
            tid = nz[0]["ty"]
            depth -= 1
        return False

    def wrap_newtype(self, tid, inner):
        t = self.p.types[tid]
        if t["k"] != "adt" or len(t["variants"]) != 1:
            raise Unsupported("transmute into " + t.get("s_", "?"))
        fields = t["variants"][0]["fields"]
        out = []
        placed = False
        for f in fields:
            ft = self.p.types[f["ty"]] if f["ty"] is not None else None
            if ft is not None and ft.get("size") == 0:
                out.append(Agg(f["ty"], 0, []))
            elif not placed:
                placed = True
                if ft is not None and ft["k"] == "adt":
                    out.append(self.wrap_newtype(f["ty"], inner))
                else:
                    out.append(inner)
            else:
                raise Unsupported("transmute into multi-field " + t.get("s_", "?"))
        return Agg(tid, 0, out)

    def unwrap_newtype(self, v):
        while isinstance(v, Agg):
            nz = [x for x in v.f if not (isinstance(x, Agg) and not x.f)]
            if len(nz) != 1:
                raise Unsupported("transmute out of multi-field aggregate %r" % (v,))
            v = nz[0]
        return v

    def unsize(self, v, dst, src, extra):
        def conv(pv):
            if isinstance(pv, Ptr):
                if extra and "vtable" in extra:
                    return Ptr(pv.cell, pv.path, ("vt", extra["vtable"]))
                tgt = self.read_loc(Loc(pv.cell, pv.path))
                if isinstance(tgt, VecVal):
                    return Ptr(pv.cell, pv.path, ("slice", 0, len(tgt.items)))
                raise Unsupported("unsize of pointer to %s" % type(tgt).__name__)
            raise Unsupported("unsize of %r" % (pv,))

        if isinstance(v, Ptr):
            return conv(v)
        if isinstance(v, Agg):
            return self.map_inner_ptr(v, conv, dst)
        raise Unsupported("unsize of %r" % (v,))

    def map_inner_ptr(self, v, fn, new_ty=None):
        if isinstance(v, Agg):
            f = list(v.f)
            # descend into the first non-zst field
            for i, x in enumerate(f):
                if isinstance(x, Agg) and not x.f:
                    continue
                f[i] = self.map_inner_ptr(x, fn, None)
                break
            return Agg(new_ty if new_ty is not None else v.ty, v.var, f)
        return fn(v)

    def discr_of(self, v):
        if not isinstance(v, Agg):
            if isinstance(v, tuple) and v and v[0] == "ordering":
                return (255, 0, 1)[v[1]]
            raise Unsupported("discriminant of %r" % (v,))
        t = self.p.types.get(v.ty) if v.ty is not None else None
        if t is None:
            return v.var
        if t["k"] == "adt":
            if t["adt"] != "enum":
                return 0
            return int(t["variants"][v.var]["discr"])
        if t["k"] == "coroutine":
            return v.var
        return v.var

    def rvalue(self, fr, rv):
        k = rv[0]
        if k == "use":
            return self.operand(fr, rv[1])
        if k == "ref" or k == "addrof":
            place = rv[2] if k == "ref" else rv[1]
            loc = self.place_loc(fr, place)
            if loc.special is not None:
                if loc.special[0] == "str":
                    return loc.cell.v
                if loc.special[0] in ("slice", "vt"):
                    return Ptr(loc.cell, loc.path, loc.special)
                raise Unsupported("reference to virtual place " + loc.special[0])
            return Ptr(loc.cell, loc.path)
        if k == "agg":
            kind, ops = rv[1], rv[2]
            vals = [self.operand(fr, o) for o in ops]
            kk = kind[0]
            if kk == "tuple":
                return Agg(None, 0, vals)
            if kk == "adt":
                tn = self.p.types[kind[1]].get("name")
                if tn == "std::vec::Vec":
                    # inlined Vec::new(): {buf: RawVec(dangling), len: 0}
                    if vals and vals[-1] == 0:
                        return VecVal()
                    raise Unsupported("field-wise construction of a non-empty Vec")
                if tn == "std::string::String":
                    inner = vals[0]
                    if isinstance(inner, VecVal):
                        return StrBuf(self.bytes_to_str(Ptr(Cell(inner), (), ("slice", 0, len(inner.items)))).chars)
                    raise Unsupported("field-wise construction of String from %r" % (inner,))
                return Agg(kind[1], kind[2], vals)
            if kk == "coroutine":
                return self.new_coroutine(kind[1], vals)
            if kk == "closure":
                return Agg(kind[1], 0, vals)
            if kk == "array":
                return VecVal(vals)
            if kk == "rawptr":
                p, meta = vals
                p = self.unwrap_ptr(p) if isinstance(p, Agg) else p
                if is_sym(meta):
                    meta = self.concretize(meta, 64, what="slice length")
                if isinstance(p, Ptr):
                    if isinstance(meta, int):
                        if p.path and isinstance(p.path[-1], int):
                            try:
                                cont = self.read_loc(Loc(p.cell, p.path[:-1]))
                            except (Unsupported, PathEnd):
                                cont = None
                            if isinstance(cont, VecVal):
                                return Ptr(p.cell, p.path[:-1], ("slice", p.path[-1], meta))
                        tgt = self.read_loc(Loc(p.cell, p.path))
                        if isinstance(tgt, VecVal):
                            return Ptr(p.cell, p.path, ("slice", 0, meta))
                        raise Unsupported("slice from raw parts over %r" % (tgt,))
                    return p
                raise Unsupported("rawptr aggregate")
            raise Unsupported("aggregate " + kk)
        if k == "bin":
            a = self.operand(fr, rv[2])
            b = self.operand(fr, rv[3])
            r = self.binop(rv[1], a, b, rv[4])
            if isinstance(r, tuple) and r and r[0] == "ordering":
                return self.mk_ordering(r[1])
            return r
        if k == "chk":
            a = self.operand(fr, rv[2])
            b = self.operand(fr, rv[3])
            r, ov = self.checked(rv[1], a, b, rv[4])
            return Agg(None, 0, [r, ov])
        if k == "un":
            return self.unop(rv[1], self.operand(fr, rv[2]), rv[3])
        if k == "cast":
            return self.cast(rv[1], self.operand(fr, rv[2]), rv[3], rv[4], rv[5])
        if k == "discr":
            v = self.read_loc(self.place_loc(fr, rv[1]))
            if v is None and not rv[1][1]:
                t = self.p.types.get(fr.body["locals"][rv[1][0]])
                if t is not None and t.get("size") == 0:
                    return 0  # zero-sized enum (single inhabited variant), never written
            return self.discr_of(v)
        if k == "len":
            loc = self.place_loc(fr, rv[1])
            if loc.special is not None and loc.special[0] == "slice":
                return loc.special[2]
            v = self.read_loc(loc)
            if isinstance(v, VecVal):
                return len(v.items)
            raise Unsupported("len of %r" % (v,))
        if k == "repeat":
            v = self.operand(fr, rv[1])
            return VecVal([copy_value(v) for _ in range(rv[2])])
        raise Unsupported("rvalue " + k)

    def mk_ordering(self, idx):
        tid = self.p.find_ty("std::cmp::Ordering")
        return Agg(tid, idx, [])

    # -- execution ---------------------------------------------------------------
    def fn_summary(self, info):
        m = info.get("fn")
        r = self.summary_cache.get(m, 0)
        if r == 0:
            r = self.summ.lookup(info, self.p.fns.get(m))
            self.summary_cache[m] = r
        return r

    def push_call(self, st, info, args, dest, ret_bb):
        m = info["fn"]
        f = self.p.fns.get(m)
        if f is None:
            raise Unsupported("call to undumped function " + info.get("name", m))
        body = f.get("body")
        if body is None:
            raise Unsupported("no MIR body for %s (kind %s)" % (f["name"], f["kind"]))
        argc = body["argc"]
        if f.get("rust_call") and body["spread"] is None and args and isinstance(args[-1], Agg):
            # closure body called with (env, (args...)): untuple
            args = args[:-1] + list(args[-1].f)
        if len(args) != argc:
            # rust-call ABI: untuple the last argument / re-tuple for spread_arg
            if body["spread"] is not None:
                sp = body["spread"]
                fixed = args[: sp - 1]
                rest = args[sp - 1:]
                args = fixed + [Agg(None, 0, rest)]
            elif args and isinstance(args[-1], Agg) and len(args) - 1 + len(args[-1].f) == argc:
                args = args[:-1] + list(args[-1].f)
            if len(args) != argc:
                raise Unsupported("argument count mismatch calling " + f["name"])
        elif body["spread"] is not None:
            pass
        nl = len(body["locals"])
        locs = [Cell() for _ in range(nl)]
        for i, a in enumerate(args):
            locs[i + 1].v = a
        fr = Frame(f, body, locs, dest, ret_bb)
        st.frames.append(fr)
        if len(st.frames) > 400:
            raise Unsupported("call depth > 400")
        d = self.stats.fns_interpreted
        d[f["name"]] = d.get(f["name"], 0) + 1

    def do_return(self, st):
        fr = st.frames.pop()
        v = fr.locals[0].v
        if not st.frames:
            raise PathEnd("done")
        caller = st.frames[-1]
        if fr.dest is not None:
            self.write_loc(Loc(fr.dest[0], fr.dest[1]), v)
        if fr.ret_bb is None:
            raise PathEnd("diverged", "return into a call without target")
        caller.bb = fr.ret_bb

    def call(self, st, fr, term):
        _, finfo, argops, dest, target, _unw = term
        if "op" in finfo:
            fv = self.operand(fr, finfo["op"])
            if not isinstance(fv, FnVal):
                raise Unsupported("indirect call through %r" % (fv,))
            finfo = fv.info
            if fv.closure:
                args = [self.operand(fr, a) for a in argops]
                args = [Agg(None, 0, []), Agg(None, 0, args)]
                return self.invoke(st, fr, finfo, args, dest, target)
        if "unresolved" in finfo:
            raise Unsupported("unresolved callee " + finfo.get("name", "?"))
        args = [self.operand(fr, a) for a in argops]
        return self.invoke(st, fr, finfo, args, dest, target)

    def invoke(self, st, fr, finfo, args, dest, target):
        if finfo.get("kind") == "virtual":
            recv = args[0]
            rp = self.unwrap_ptr(recv) if isinstance(recv, Agg) else recv
            if not isinstance(rp, Ptr) or rp.meta is None or rp.meta[0] != "vt":
                raise Unsupported("virtual call on %r" % (recv,))
            vt = self.p.vtables.get(rp.meta[1])
            if not vt:
                raise Unsupported("missing vtable " + rp.meta[1])
            ent = vt[finfo["virt"]]
            if ent is None:
                raise Unsupported("vacant vtable entry")
            thin = Ptr(rp.cell, rp.path)
            if isinstance(recv, Agg):
                args = [self.map_inner_ptr(recv, lambda _p: thin)] + args[1:]
            else:
                args = [thin] + args[1:]
            finfo = ent
        s = self.fn_summary(finfo)
        if s is None:
            f0 = self.p.fns.get(finfo.get("fn"))
            if f0 is not None and f0.get("body") is None and f0.get("kind") == "item":
                ctor = self.try_ctor(f0, args)
                if ctor is not None:
                    self.write_loc(self.place_loc(fr, dest), ctor)
                    fr.bb = target
                    return
        if self.trace:
            print("%sCALL %s %r" % ("  " * len(st.frames), finfo.get("name", "?")[:100], args), file=sys.stderr)
        dloc = self.place_loc(fr, dest)
        if s is not None:
            name = finfo.get("def") or finfo.get("name")
            d = self.stats.summaries_used
            d[name] = d.get(name, 0) + 1
            r = s(self, st, finfo, args)
            if r is NotImplemented:
                self.push_call(st, finfo, args, (dloc.cell, dloc.path), target)
                return
            if isinstance(r, TailCall):
                self.tail(st, r, (dloc.cell, dloc.path), target)
                return
            if target is None:
                raise PathEnd("diverged", "summary returned into a diverging call")
            self.write_loc(dloc, r)
            fr.bb = target
            return
        self.push_call(st, finfo, args, (dloc.cell, dloc.path), target)

    def tail(self, st, r, dest, target):
        """a summary asked to run function r.info(r.args) and pass the result
        through r.then (which may ask for another call) before delivering it to
        dest / continuing at target in the current top frame."""
        while True:
            s = self.fn_summary(r.info)
            if s is None:
                self.push_call(st, r.info, r.args, dest, target)
                st.frames[-1].pending = r.then
                return
            v = s(self, st, r.info, r.args)
            if isinstance(v, TailCall):
                if r.then is not None:
                    raise Unsupported("nested tail calls with continuation")
                r = v
                continue
            if r.then is not None:
                v = r.then(self, st, v)
                if isinstance(v, TailCall):
                    r = v
                    continue
            if target is None:
                raise PathEnd("diverged", "tail call into diverging call")
            if dest is not None:
                self.write_loc(Loc(dest[0], dest[1]), v)
            st.frames[-1].bb = target
            st.pos = 0
            return

    def try_ctor(self, f, args):
        """tuple-struct / tuple-variant constructor used as a function"""
        rt = f.get("ret_ty")
        t = self.p.types.get(rt) if rt is not None else None
        if t is None or t["k"] != "adt":
            return None
        last = f["name"].split("::")[-1]
        for i, v in enumerate(t["variants"]):
            if v["name"] == last and len(v["fields"]) == len(args):
                return Agg(rt, i, list(args))
        return None

    def step_block(self, st):
        fr = st.frames[-1]
        blk = fr.body["blocks"][fr.bb]
        stmts = blk["s"]
        for si in range(st.pos, len(stmts)):
            s = stmts[si]
            st.pos = si
            st.dlog = []
            k = s[0]
            if k == "assign":
                v = self.rvalue(fr, s[2])
                place = s[1]
                if not place[1]:
                    fr.locals[place[0]].v = v
                    continue
                try:
                    loc = self.place_loc(fr, place)
                    self.write_loc(loc, v)
                except Unsupported:
                    if place[1] and self.init_agg_for_write(fr, place):
                        self.write_loc(self.place_loc(fr, place), v)
                    else:
                        raise
            elif k == "dead":
                pass
            elif k == "setdiscr":
                loc = self.place_loc(fr, s[1])
                v = self.read_loc(loc)
                if v is None:
                    self.init_agg_for_write(fr, s[1])
                    v = self.read_loc(loc)
                if isinstance(v, Agg):
                    if v.var != s[2]:
                        t = self.p.types.get(v.ty)
                        v.var = s[2]
                        if t and t["k"] == "adt":
                            n = len(t["variants"][s[2]]["fields"])
                            v.f = (v.f + [None] * n)[:n]
                else:
                    raise Unsupported("setdiscr on %r" % (v,))
            elif k == "assume":
                c = self.operand(fr, s[1])
                if c is False:
                    raise PathEnd("infeasible")
            elif k == "copy_nonoverlapping":
                # element-wise copy between two Vec/array/slice containers (value level)
                from .summaries import elem_ptr_items
                n = self.index_value(self.operand(fr, s[3]))
                if n:
                    items = list(elem_ptr_items(self, self.operand(fr, s[1]), n))
                    dp = self.unwrap_ptr(self.operand(fr, s[2]))
                    if not isinstance(dp, Ptr) or not dp.path:
                        raise Unsupported("copy_nonoverlapping: destination %r" % (dp,))
                    cont = self.read_loc(Loc(dp.cell, dp.path[:-1]))
                    i = dp.path[-1]
                    if not isinstance(cont, VecVal) or isinstance(cont, ByteArr) or not isinstance(i, int) or i + n > len(cont.items):
                        raise Unsupported("copy_nonoverlapping: destination container %r" % (type(cont).__name__,))
                    cont.items[i:i + n] = items
            else:
                raise Unsupported("statement " + k)
        t = blk["t"]
        k = t[0]
        st.pos = len(stmts)
        st.dlog = []
        self.stats.steps += 1
        st.steps += 1
        self.exec_term(st, fr, t, k)
        st.pos = 0

    def exec_term(self, st, fr, t, k):
        if k == "goto":
            fr.bb = t[1]
        elif k == "switch":
            d = self.operand(fr, t[1])
            self.switch(st, fr, d, t[2], t[3])
        elif k == "call":
            self.call(st, fr, t)
        elif k == "ret":
            pend = fr.pending
            if pend is not None:
                r = pend(self, st, fr.locals[0].v)
                if isinstance(r, TailCall):
                    dest, ret_bb = fr.dest, fr.ret_bb
                    st.frames.pop()
                    self.tail(st, r, dest, ret_bb)
                    return
                fr.pending = None
                fr.locals[0].v = r
            self.do_return(st)
        elif k == "drop":
            fr.bb = t[2]
        elif k == "assert":
            c = self.operand(fr, t[1])
            exp = t[2]
            ok = c if exp else b_not(c)
            if ok is True:
                fr.bb = t[4]
            elif ok is False:
                raise PathEnd("panic", t[3])
            else:
                self.branch(st, [(ok, ("bb", t[4])), (b_not(ok), ("panic", t[3]))])
        elif k == "unreachable":
            raise PathEnd("unreachable", "reached MIR `unreachable` in " + fr.fn["name"])
        elif k == "resume" or k == "abort":
            raise PathEnd("panic", "unwind")
        else:
            raise Unsupported("terminator " + k)

    def switch(self, st, fr, d, branches, otherwise):
        if isinstance(d, bool):
            d = 1 if d else 0
        if isinstance(d, int):
            for v, bb in branches:
                if int(v) == d:
                    fr.bb = bb
                    return
            fr.bb = otherwise
            return
        if z3.is_bool(d):
            alts = []
            others = []
            for v, bb in branches:
                c = d if int(v) == 1 else z3.Not(d)
                alts.append((simp(c), ("bb", bb)))
                others.append(int(v))
            rest = []
            if 0 not in others:
                rest.append(z3.Not(d))
            if 1 not in others:
                rest.append(d)
            if rest:
                alts.append((simp(z3.Or(*rest)) if len(rest) > 1 else simp(rest[0]), ("bb", otherwise)))
            self.branch(st, alts)
            return
        w = d.size()
        alts = []
        neg = []
        for v, bb in branches:
            c = d == z3.BitVecVal(int(v), w)
            alts.append((simp(c), ("bb", bb)))
            neg.append(z3.Not(c))
        alts.append((simp(z3.And(*neg)) if neg else True, ("bb", otherwise)))
        self.branch(st, alts)

    def branch(self, st, alts):
        """alts: list of (cond, action). Continue with the first feasible one in
        this state and queue clones for the others."""
        feas = []
        for c, act in alts:
            if c is False:
                continue
            if c is True or self.feasible(st, c):
                feas.append((c, act))
        if not feas:
            raise PathEnd("infeasible")
        if len(feas) == 1 and feas[0][0] is not True:
            # the only feasible alternative is implied by the path condition
            self.learn(st, feas[0][0], True)
        if len(feas) > 1:
            self.stats.forks += len(feas) - 1
            for c, act in feas[1:]:
                s2 = st.clone()
                if c is not True:
                    s2.pc.append(c)
                    self.learn(s2, c, True)
                s2.depth += 1
                s2.decisions.append(str(act))
                self.apply_action(s2, act, queued=True)
        c, act = feas[0]
        if c is not True and len(feas) > 1:
            st.pc.append(c)
            self.learn(st, c, True)
            st.depth += 1
        self.apply_action(st, act, queued=False)

    def apply_action(self, st, act, queued):
        if act[0] == "bb":
            st.frames[-1].bb = act[1]
            st.pos = 0
            if queued:
                self.worklist.append(st)
        elif act[0] == "panic":
            if queued:
                st.end = ("panic", act[1])
                self.worklist.append(st)
            else:
                raise PathEnd("panic", act[1])

    def run_path(self, st):
        self.state = st
        end = st.end
        if end is not None:
            raise PathEnd(*end)
        while True:
            if self.stats.steps > self.step_budget:
                raise Budget("step budget exhausted")
            if st.steps > self.path_step_limit:
                fr = st.frames[-1] if st.frames else None
                raise PathEnd("hang", "no termination within %d MIR blocks (in %s)" % (
                    self.path_step_limit, fr.fn["name"][:100] if fr else "?"))
            if self.deadline is not None and (self.stats.steps & 0xFF) == 0 and time.time() > self.deadline:
                raise Budget("time budget exhausted")
            try:
                self.step_block(st)
            except PathEnd as pe:
                if pe.kind == "panic" and st.frames and " @" not in pe.msg:
                    fr = st.frames[-1]
                    pe.msg = "%s @%s bb%d" % (pe.msg, fr.fn["name"][:120], fr.bb)
                raise
            except ForkRequest as fk:
                prefix = list(st.dlog)
                self.stats.forks += len(fk.alts) - 1
                for c, val in fk.alts[1:]:
                    s2 = st.clone()
                    if c is not None and c is not True:
                        s2.pc.append(c)
                        self.learn(s2, c, True)
                    s2.forced = prefix + [val]
                    s2.depth += 1
                    s2.decisions.append("sum:%s" % (val,))
                    self.worklist.append(s2)
                c, val = fk.alts[0]
                if c is not None and c is not True:
                    st.pc.append(c)
                    self.learn(st, c, True)
                st.forced = prefix + [val]
                st.depth += 1

    def explore(self, root_name, on_path_end=None):
        """run every feasible path of harness `root_name`."""
        info = self.p.roots[root_name]
        st = State()
        self.state = st
        self.worklist = []
        self.push_call(st, info, [], None, None)
        self.worklist.append(st)
        rng = getattr(self, "order_rng", None)
        while self.worklist:
            if rng is not None and len(self.worklist) < 512:
                # seed-dependent exploration order (budgeted thorough tiers); falls back to DFS when the
                # frontier grows, to bound memory
                st = self.worklist.pop(rng.randrange(len(self.worklist)))
            else:
                st = self.worklist.pop()
            if self.stats.paths >= self.path_budget:
                raise Budget("path budget exhausted")
            try:
                self.run_path(st)
            except PathEnd as e:
                self.stats.paths += 1
                if st.depth > self.stats.max_depth:
                    self.stats.max_depth = st.depth
                d = self.stats.paths_by_end
                d[e.kind] = d.get(e.kind, 0) + 1
                if on_path_end:
                    on_path_end(self, st, e)


    # -- property checks ----------------------------------------------------------
    def record_finding(self, st, label, cls):
        key = (label, cls)
        f = self.findings_idx.get(key) if hasattr(self, "findings_idx") else None
        if not hasattr(self, "findings_idx"):
            self.findings_idx = {}
        f = self.findings_idx.get(key)
        if f is None:
            f = {"label": label, "class": cls, "model": self.model_values(), "count": 0,
                 "decisions": list(st.decisions)[-12:]}
            self.findings_idx[key] = f
            self.findings.append(f)
        f["count"] += 1

    def do_check(self, st, label, cond):
        self.stats.checks += 1
        log = self.check_log.setdefault(label, {"evals": 0, "trivially_true": 0, "queries": 0, "violating_paths": 0})
        log["evals"] += 1
        if cond is True:
            log["trivially_true"] += 1
            return
        neg = b_not(cond)
        self.violation_queries(st, label, neg, log)
        if cond is False:
            raise PathEnd("check-failed", label)
        if not self.feasible(st, cond):
            raise PathEnd("check-failed", label)
        st.pc.append(zbool(cond))

    def violation_queries(self, st, label, neg, log):
        """neg: condition under which the property is violated on this path
        (True for an unconditional panic).  Splits the question by the known
        input classes so that a *different* violation is still reported."""
        if self.model is not None:
            # concrete mode: just record
            if neg is True:
                self.findings.append({"label": label, "class": None, "model": dict(self.model), "count": 1})
            return
        known = [(l, c) for l, c in st.classes.items() if l in self.known_classes and c is not False]
        q = b_and(neg, *[b_not(c) for _l, c in known])
        hit = False
        if q is not False:
            log["queries"] += 1
            self.stats.check_queries += 1
            r = self.check_sat(st.pc, None if q is True else q)
            if r == "unknown":
                raise Unsupported("solver unknown on property query " + label)
            if r == "sat":
                hit = True
                self.record_finding(st, label, None)
        for l, c in known:
            q = b_and(neg, c)
            if q is False:
                continue
            log["queries"] += 1
            self.stats.check_queries += 1
            r = self.check_sat(st.pc, None if q is True else q)
            if r == "unknown":
                raise Unsupported("solver unknown on class query " + label)
            if r == "sat":
                hit = True
                self.record_finding(st, label, l)
        if hit:
            log["violating_paths"] += 1


class TailCall:
    def __init__(self, info, args, then=None):
        self.info = info
        self.args = args
        self.then = then


class Cont:
    """a continuation of a summarised call that survives state forks: `fn` is a
    module-level function fn(machine, state, value, data) and `data` holds only
    cloneable values (cloned together with the state, aliasing preserved)"""

    __slots__ = ("fn", "data")

    def __init__(self, fn, data):
        self.fn = fn
        self.data = data

    def __call__(self, m, st, value):
        return self.fn(m, st, value, self.data)
