"""Run one harness symbolically (or concretely with --model).

usage: python -m mirsym.run --mir FILE --harness h_x [--known a,b,...]
                            [--model FILE] [--budget-s N] [--out FILE]
exit: 0 explored completely; 3 inconclusive (unsupported/budget)."""
import argparse
import json
import sys
import time
import traceback

from . import core
from .core import Budget, Machine, PathEnd, Program, Unsupported
from .summaries import Summaries


def load_model(path):
    out = {}
    for line in open(path):
        if "=" in line:
            k, v = line.split("=", 1)
            out[k.strip()] = int(v.strip())
    return out


def main(argv=None):
    ap = argparse.ArgumentParser()
    ap.add_argument("--mir", required=True)
    ap.add_argument("--harness", required=True)
    ap.add_argument("--known", default="")
    ap.add_argument("--model")
    ap.add_argument("--budget-s", type=float, default=600)
    ap.add_argument("--steps", type=int, default=50_000_000)
    ap.add_argument("--paths", type=int, default=5_000_000)
    ap.add_argument("--seed", type=int, default=0)
    ap.add_argument("--shard", default="")  # name=v1,v2;name2=...
    ap.add_argument("--out")
    ap.add_argument("--panic-ok", action="store_true", help="panics end the path but are not findings")
    ap.add_argument("--param", action="append", default=[])
    ap.add_argument("--witnesses", type=int, default=24)
    ap.add_argument("--path-steps", type=int, default=4_000_000)
    ap.add_argument("--partial-ok", action="store_true",
                    help="a budget stop is reported as status 'partial' (explored part decided, rest stated as unexplored)")
    ap.add_argument("--random-order", action="store_true", help="pop the work list in a seed-dependent order")
    a = ap.parse_args(argv)

    t0 = time.time()
    prog = Program(a.mir)
    model = load_model(a.model) if a.model else None
    m = Machine(prog, Summaries(), model=model, seed=a.seed, step_budget=a.steps, path_budget=a.paths)
    m.known_classes = set(x for x in a.known.split(",") if x)
    m.deadline = t0 + a.budget_s
    m.path_step_limit = a.path_steps
    if a.random_order:
        import random as _r
        m.order_rng = _r.Random(a.seed * 104729 + 7)
    import os
    m.trace = bool(os.environ.get("MIRSYM_TRACE"))
    if a.shard:
        for part in a.shard.split(";"):
            k, vs = part.split("=")
            m.choose_filter[k] = set(int(x) for x in vs.split(","))
    for kv in a.param:
        k, v = kv.split("=")
        m.params[k] = int(v)
    import random
    rng = random.Random(a.seed * 7919 + 13)
    witnesses = []
    nseen = [0]

    def eval_term(mdl, t):
        if isinstance(t, bool):
            return 1 if t else 0
        if isinstance(t, int):
            return t
        v = mdl.eval(t, model_completion=True)
        import z3
        if z3.is_bv_value(v):
            return v.as_long()
        return 1 if z3.is_true(v) else 0

    def take_witness(mach, st, e):
        if model is not None or a.witnesses <= 0 or e.kind not in ("done", "panic"):
            return
        nseen[0] += 1
        if len(witnesses) >= a.witnesses:
            j = rng.randrange(nseen[0])
            if j >= a.witnesses:
                return
        else:
            j = None
        if mach.check_sat(st.pc) != "sat":
            return
        mdl = mach._last_model
        vals = mach.model_values()
        ems = []
        for lab, kind, v in st.emits:
            if kind == "s":
                ems.append("%s=%s" % (lab, "".join("%x." % eval_term(mdl, c) for c in v)))
            else:
                ems.append("%s=#%d" % (lab, eval_term(mdl, v)))
        w = {"model": vals, "end": e.kind, "msg": e.msg, "emits": ems}
        if j is None:
            witnesses.append(w)
        else:
            witnesses[j] = w

    samples = []
    panics = {}
    emits = []
    covers = {}

    def on_end(mach, st, e):
        for c in st.cover:
            covers[c] = covers.get(c, 0) + 1
        if model is not None:
            for lab, kind, v in st.emits:
                if kind == "s":
                    emits.append("%s=%s" % (lab, "".join("%x." % c for c in v)))
                else:
                    emits.append("%s=#%d" % (lab, v))
        take_witness(mach, st, e)
        if e.kind == "panic" and a.panic_ok:
            panics[e.msg] = panics.get(e.msg, 0) + 1
        elif e.kind == "panic":
            label = "panic"
            log = mach.check_log.setdefault(label, {"evals": 0, "trivially_true": 0, "queries": 0, "violating_paths": 0})
            log["evals"] += 1
            before = len(mach.findings)
            mach.violation_queries(st, label, True, log)
            for f in mach.findings[before:]:
                f["panic_msg"] = e.msg
            panics[e.msg] = panics.get(e.msg, 0) + 1
        elif e.kind == "hang":
            log = mach.check_log.setdefault("hang", {"evals": 0, "trivially_true": 0, "queries": 0, "violating_paths": 0})
            log["evals"] += 1
            before = len(mach.findings)
            mach.violation_queries(st, "hang", True, log)
            for f in mach.findings[before:]:
                f["panic_msg"] = e.msg
        elif e.kind == "unreachable":
            raise Unsupported("MIR unreachable reached: " + e.msg)
        if len(samples) < 5:
            samples.append({"end": e.kind, "msg": e.msg, "decisions": st.decisions[-10:], "pc_len": len(st.pc),
                            "steps": st.steps})

    status = "complete"
    reason = ""
    try:
        m.explore(a.harness, on_end)
    except Unsupported as e:
        status = "inconclusive"
        reason = "unsupported: %s" % e
        fr = m.state.frames[-1] if m.state and m.state.frames else None
        if fr is not None:
            reason += " [in %s bb%d]" % (fr.fn["name"], fr.bb)
    except Budget as e:
        status = "partial" if a.partial_ok else "inconclusive"
        reason = "budget: %s (work list not exhausted: %d pending states)" % (e, len(m.worklist))
    except Exception as e:  # interpreter bug
        status = "inconclusive"
        reason = "internal: %s\n%s" % (e, traceback.format_exc())
        fr = m.state.frames[-1] if m.state and m.state.frames else None
        if fr is not None:
            reason += " [in %s bb%d]" % (fr.fn["name"], fr.bb)
    s = m.stats
    xot_fns = sorted(k for k in s.fns_interpreted if k.startswith("xot::") or k.startswith("<xot::") or "indextree" in k)
    res = {
        "harness": a.harness,
        "status": status,
        "reason": reason,
        "paths": s.paths,
        "paths_by_end": s.paths_by_end,
        "forks": s.forks,
        "queries": s.queries,
        "fact_hits": s.fact_hits,
        "check_queries": s.check_queries,
        "solver_s": round(s.solver_s, 3),
        "steps": s.steps,
        "max_depth": s.max_depth,
        "wall_s": round(time.time() - t0, 3),
        "fns_interpreted": len(s.fns_interpreted),
        "xot_fns": xot_fns,
        "summaries_used": sorted(s.summaries_used),
        "checks": m.check_log,
        "findings": m.findings,
        "panics": panics,
        "covers": covers,
        "samples": samples,
        "symvars": list(m.symvars)[:64],
        "emits": emits,
        "witnesses": witnesses,
        "params": dict(m.params_used, **m.params),
    }
    out = json.dumps(res, indent=1, default=str)
    if a.out:
        open(a.out, "w").write(out)
    else:
        print(out)
    return 0 if status == "complete" else 3


if __name__ == "__main__":
    sys.exit(main())
