"""Value-level summaries for std (and the `xh::sym` intrinsics).

Everything here is *trusted base*: each summary replaces a std function whose
real body works on raw memory (String/Vec buffers, UTF-8 bytes, hash tables)
with its documented value-level meaning.  They are validated on every run by
concrete differential execution against the natively compiled code
(see validate.py).  xot / indextree code is never summarised.
"""
import re

import z3

from .core import (Agg, ByteArr, BytesRef, Cell, Cont, FnVal, ForkRequest, Loc, MapVal, Obj, PathEnd, Ptr, StrBuf, StrRef, TailCall,
                   Unsupported, VecVal, b_and, b_not, b_or, bv, copy_value, is_sym, mask, simp, v_eq, zbool)

REG = []  # (compiled regex on def-or-name, fn, label)


def summary(*pats):
    def deco(fn):
        for p in pats:
            REG.append((re.compile(p), fn, p))
        return fn

    return deco


class Summaries:
    def __init__(self):
        self.used = set()

    def lookup(self, info, fn):
        d = info.get("def") or ""
        n = info.get("name") or ""
        for rx, f, label in REG:
            if rx.fullmatch(d) or rx.fullmatch(n):
                return f
        if info.get("kind") == "intrinsic" or (fn is not None and fn.get("kind") == "intrinsic"):
            iname = info.get("intrinsic") or (fn or {}).get("intrinsic")
            f = INTRINSICS.get(iname)
            if f is not None:
                return f
            if fn is not None and fn.get("body") is not None:
                return None  # fallback body
            return lambda m, st, i, a, _n=iname: unsupported("intrinsic " + str(_n))
        return None


def unsupported(msg):
    raise Unsupported(msg)


# ---------------------------------------------------------------------------
# helpers


def ret_ty(m, info):
    return m.p.fns[info["fn"]]["ret_ty"]


def variant_index(m, tid, name):
    t = m.p.types[tid]
    for i, v in enumerate(t["variants"]):
        if v["name"] == name:
            return i
    raise Unsupported("no variant %s in %s" % (name, t.get("s_")))


def mk_some(m, tid, v):
    return Agg(tid, variant_index(m, tid, "Some"), [v])


def mk_none(m, tid):
    return Agg(tid, variant_index(m, tid, "None"), [])


def mk_ok(m, tid, v):
    return Agg(tid, variant_index(m, tid, "Ok"), [v])


def mk_err(m, tid, v):
    return Agg(tid, variant_index(m, tid, "Err"), [v])


def field_ty(m, tid, var, idx):
    return m.p.types[tid]["variants"][var]["fields"][idx]["ty"]


def unit():
    return Agg(None, 0, [])


def deref(m, p):
    """read the value a pointer designates"""
    if isinstance(p, StrRef):
        return p
    p = m.unwrap_ptr(p)
    if not isinstance(p, Ptr):
        raise Unsupported("summary deref of %r" % (p,))
    return m.read_loc(Loc(p.cell, p.path))


def as_str(m, v):
    """&str | &String | String | &&str ... -> tuple of chars"""
    for _ in range(4):
        if isinstance(v, StrRef):
            return v.chars
        if isinstance(v, StrBuf):
            return tuple(v.chars)
        if isinstance(v, Ptr) or isinstance(v, Agg):
            if isinstance(v, Agg) and m.p.types.get(v.ty, {}).get("name") == "std::borrow::Cow":
                v = v.f[0]
                continue
            v = deref(m, v)
            continue
        break
    raise Unsupported("expected a string, got %r" % (v,))


def strbuf_of(m, p):
    v = deref(m, p)
    if not isinstance(v, StrBuf):
        raise Unsupported("expected String, got %r" % (v,))
    return v


def const_str(chars):
    out = []
    for c in chars:
        if not isinstance(c, int):
            return None
        out.append(chr(c))
    return "".join(out)


def chars_eq(a, b):
    if len(a) != len(b):
        return False
    conds = []
    for x, y in zip(a, b):
        e = v_eq(x, y, 32)
        if e is False:
            return False
        conds.append(e)
    return b_and(*conds)


# ---------------------------------------------------------------------------
# xh::sym intrinsics


def _name_arg(a):
    s = const_str(a.chars) if isinstance(a, StrRef) else None
    if s is None:
        raise Unsupported("sym:: name must be a literal")
    return s


@summary(r"xh::sym::any_u64", r"xh::sym::any_usize")
def s_any64(m, st, info, args):
    return m.fresh(_name_arg(args[0]), 64)


@summary(r"xh::sym::any_u32")
def s_any32(m, st, info, args):
    return m.fresh(_name_arg(args[0]), 32)


@summary(r"xh::sym::any_u16")
def s_any16(m, st, info, args):
    return m.fresh(_name_arg(args[0]), 16)


@summary(r"xh::sym::any_u8")
def s_any8(m, st, info, args):
    return m.fresh(_name_arg(args[0]), 8)


@summary(r"xh::sym::any_bool")
def s_anybool(m, st, info, args):
    return m.fresh(_name_arg(args[0]), 1, is_bool=True)


def fresh_char(m, st, name):
    c = m.fresh(name, 32)
    if is_sym(c):
        valid = z3.And(z3.ULT(c, 0x110000), z3.Or(z3.ULT(c, 0xD800), z3.UGT(c, 0xDFFF)))
        key = "valid:" + name
        valid = m.symvars_constraints.setdefault(key, valid)
        # char validity is a typing invariant, part of every path that uses it
        if not any(x is valid for x in st.pc):
            st.pc.append(valid)
    else:
        if c >= 0x110000 or 0xD800 <= c <= 0xDFFF:
            c = 0xFFFD
    return c


@summary(r"xh::sym::any_char")
def s_anychar(m, st, info, args):
    return fresh_char(m, st, _name_arg(args[0]))


@summary(r"xh::sym::any_string")
def s_anystring(m, st, info, args):
    name = _name_arg(args[0])
    n = args[1]
    if not isinstance(n, int):
        n = m.concretize(n, 64, what="string length")
    return StrBuf([fresh_char(m, st, "%s.%d" % (name, i)) for i in range(n)])


@summary(r"xh::sym::choose")
def s_choose(m, st, info, args):
    name = _name_arg(args[0])
    n = args[1]
    if not isinstance(n, int):
        raise Unsupported("choose bound must be concrete")
    if n <= 1:
        return 0
    if m.model is not None:
        return int(m.model.get(name, 0)) % n
    v = m.fresh(name, 64)
    if st.forced:
        r = st.forced.pop(0)
        st.dlog.append(r)
        return r
    only = m.choose_filter.get(name)
    alts = []
    for i in range(n):
        if only is not None and i not in only:
            continue
        c = simp(v == i)
        if m.feasible(st, c):
            alts.append((c, i))
    if not alts:
        raise PathEnd("infeasible")
    raise ForkRequest(alts)


@summary(r"xh::sym::param")
def s_param(m, st, info, args):
    name = _name_arg(args[0])
    if name in m.params:
        return int(m.params[name])
    if m.model is not None and ("param." + name) in m.model:
        return int(m.model["param." + name])
    if not isinstance(args[1], int):
        raise Unsupported("param default must be concrete")
    m.params_used[name] = args[1]
    return args[1]


@summary(r"xh::sym::assume")
def s_assume(m, st, info, args):
    c = args[0]
    if c is True:
        return unit()
    if c is False:
        raise PathEnd("assume-false")
    if not m.feasible(st, c):
        raise PathEnd("assume-false")
    st.pc.append(zbool(c))
    return unit()


@summary(r"xh::sym::check")
def s_check(m, st, info, args):
    label = _name_arg(args[0])
    m.do_check(st, label, args[1])
    return unit()


@summary(r"xh::sym::cover")
def s_cover(m, st, info, args):
    st.cover.append(_name_arg(args[0]))
    return unit()


@summary(r"xh::sym::class")
def s_class(m, st, info, args):
    label = _name_arg(args[0])
    c = args[1]
    prev = st.classes.get(label)
    st.classes[label] = c if prev is None else b_or(prev, c)
    return unit()


@summary(r"xh::sym::emit_str")
def s_emit_str(m, st, info, args):
    label = _name_arg(args[0])
    chars = as_str(m, args[1])
    st.emits.append((label, "s", tuple(chars)))
    return unit()


@summary(r"xh::sym::emit_u64")
def s_emit_u64(m, st, info, args):
    st.emits.append((_name_arg(args[0]), "u", args[1]))
    return unit()


# ---------------------------------------------------------------------------
# panics


@summary(r"core::panicking::panic(_fmt|_nounwind|_nounwind_fmt|_explicit|_str|_display|_cannot_unwind|_in_cleanup|_misaligned_pointer_dereference|_null_pointer_dereference)?(::<.*>)?",
         r"std::rt::panic_fmt", r"std::rt::begin_panic(::<.*>)?", r"std::panicking::begin_panic(::<.*>)?",
         r"core::panicking::panic_bounds_check", r"core::panicking::assert_failed(::<.*>)?",
         r"core::panicking::assert_failed_inner", r"core::panicking::unreachable_display(::<.*>)?",
         r"(core|std)::option::unwrap_failed", r"(core|std)::option::expect_failed", r"(core|std)::result::unwrap_failed",
         r"(core|std)::panicking::.*", r"(core|std)::slice::index::slice_.*fail.*", r"(core|std)::str::slice_error_fail.*",
         r"(core|std)::cell::panic_.*", r"(core|std)::char::.*do_panic.*", r"std::alloc::.*::handle_error",
         r"core::slice::index::slice_index_fail", r"core::slice::index::slice_(start|end)_index_len_fail",
         r"core::slice::index::slice_index_order_fail", r"core::str::slice_error_fail",
         r"std::alloc::handle_alloc_error", r"alloc::raw_vec::handle_error", r"alloc::raw_vec::capacity_overflow",
         r"std::cell::panic_already_borrowed", r"std::cell::panic_already_mutably_borrowed",
         r"core::num::from_ascii_radix_panic", r"std::process::abort", r"std::panic::panic_any(::<.*>)?",
         r"core::panicking::panic_const::.*", r"std::thread::local::panic_access_error",
         r"core::str::traits::str_index_overflow_fail", r"core::cell::panic_already_.*",
         r"core::char::methods::encode_utf8_raw::do_panic.*", r"std::char::encode_utf8_raw::do_panic.*")
def s_panic(m, st, info, args):
    msg = info.get("name", "panic")
    for a in args:
        if isinstance(a, StrRef):
            s = const_str(a.chars)
            if s is not None:
                msg += ": " + s
                break
    raise PathEnd("panic", msg)


# ---------------------------------------------------------------------------
# String / str


@summary(r"std::string::String::new")
def s_string_new(m, st, info, args):
    return StrBuf()


@summary(r"std::string::String::with_capacity")
def s_string_with_capacity(m, st, info, args):
    return StrBuf()


@summary(r"std::string::String::push")
def s_string_push(m, st, info, args):
    strbuf_of(m, args[0]).chars.append(args[1])
    return unit()


@summary(r"std::string::String::push_str")
def s_string_push_str(m, st, info, args):
    chars = as_str(m, args[1])
    strbuf_of(m, args[0]).chars.extend(chars)
    return unit()


@summary(r"std::string::String::clear")
def s_string_clear(m, st, info, args):
    strbuf_of(m, args[0]).chars.clear()
    return unit()


@summary(r"<std::string::String as std::ops::Deref>::deref", r"std::string::String::as_str",
         r"std::str::<impl std::borrow::Borrow<str> for std::string::String>::borrow",
         r"<std::string::String as std::convert::AsRef<str>>::as_ref",
         r"<std::string::String as std::ops::DerefMut>::deref_mut",
         r"std::string::String::as_mut_str",
         r"<str as std::convert::AsRef<str>>::as_ref")
def s_string_as_str(m, st, info, args):
    return StrRef(as_str(m, args[0]))


@summary(r"std::str::<impl std::borrow::ToOwned for str>::to_owned", r"<std::string::String as std::clone::Clone>::clone",
         r"<std::string::String as std::convert::From<&str>>::from",
         r"<std::string::String as std::convert::From<&mut str>>::from",
         r"<std::string::String as std::convert::From<&std::string::String>>::from",
         r"<str as std::string::ToString>::to_string", r"<str as std::string::SpecToString>::spec_to_string",
         r"<std::string::String as std::string::ToString>::to_string",
         r"<std::string::String as std::string::SpecToString>::spec_to_string",
         r"std::string::String::from_str", r"<std::string::String as std::str::FromStr>::from_str_",
         r"<std::boxed::Box<str> as std::convert::From<&str>>::from_")
def s_str_to_owned(m, st, info, args):
    return StrBuf(as_str(m, args[0]))


@summary(r"<std::string::String as std::cmp::PartialEq>::eq", r"<std::string::String as std::cmp::PartialEq<str>>::eq",
         r"<std::string::String as std::cmp::PartialEq<&str>>::eq", r"<str as std::cmp::PartialEq<std::string::String>>::eq",
         r"<&str as std::cmp::PartialEq<std::string::String>>::eq",
         r"core::str::traits::<impl std::cmp::PartialEq for str>::eq")
def s_str_eq(m, st, info, args):
    return chars_eq(as_str(m, args[0]), as_str(m, args[1]))


@summary(r"<std::string::String as std::cmp::PartialEq>::ne", r"core::str::traits::<impl std::cmp::PartialEq for str>::ne")
def s_str_ne(m, st, info, args):
    return b_not(chars_eq(as_str(m, args[0]), as_str(m, args[1])))


@summary(r"core::str::<impl str>::len", r"std::string::String::len")
def s_str_len(m, st, info, args):
    return m.str_byte_len(as_str(m, args[0]))


@summary(r"core::str::<impl str>::is_empty", r"std::string::String::is_empty")
def s_str_is_empty(m, st, info, args):
    return len(as_str(m, args[0])) == 0


@summary(r"core::str::<impl str>::chars")
def s_chars(m, st, info, args):
    s = as_str(m, args[0])
    return Obj("chars", s=s, i=0, j=len(s))


@summary(r"<std::str::Chars<'a> as std::iter::Iterator>::next")
def s_chars_next(m, st, info, args):
    it = deref(m, args[0])
    tid = ret_ty(m, info)
    d = it.d
    if d["i"] >= d["j"]:
        return mk_none(m, tid)
    c = d["s"][d["i"]]
    d["i"] += 1
    return mk_some(m, tid, c)


@summary(r"<std::str::Chars<'a> as std::iter::DoubleEndedIterator>::next_back")
def s_chars_next_back(m, st, info, args):
    it = deref(m, args[0])
    tid = ret_ty(m, info)
    d = it.d
    if d["i"] >= d["j"]:
        return mk_none(m, tid)
    d["j"] -= 1
    return mk_some(m, tid, d["s"][d["j"]])


@summary(r"<std::str::Chars<'a> as std::iter::Iterator>::count")
def s_chars_count(m, st, info, args):
    d = args[0].d
    return d["j"] - d["i"]


@summary(r"std::str::Chars::<'a>::as_str")
def s_chars_as_str(m, st, info, args):
    d = deref(m, args[0]).d
    return StrRef(d["s"][d["i"]:d["j"]])


@summary(r"core::str::<impl str>::char_indices")
def s_char_indices(m, st, info, args):
    s = as_str(m, args[0])
    return Obj("char_indices", s=s, i=0, off=0)


@summary(r"<std::str::CharIndices<'a> as std::iter::Iterator>::next")
def s_char_indices_next(m, st, info, args):
    it = deref(m, args[0])
    tid = ret_ty(m, info)
    d = it.d
    if d["i"] >= len(d["s"]):
        return mk_none(m, tid)
    c = d["s"][d["i"]]
    off = d["off"]
    d["i"] += 1
    l = m.utf8_len(c)
    if isinstance(off, int) and isinstance(l, int):
        d["off"] = off + l
    else:
        d["off"] = simp(bv(off, 64) + bv(l, 64))
    some = variant_index(m, tid, "Some")
    pair_ty = field_ty(m, tid, some, 0)
    return Agg(tid, some, [Agg(pair_ty, 0, [off, c])])


def char_index_of_byte(m, chars, off, what):
    """byte offset -> char index; panics (PathEnd) when not on a boundary."""
    if isinstance(off, int):
        pos = 0
        for i, c in enumerate(chars):
            if isinstance(pos, int) and pos == off:
                return i
            l = m.utf8_len(c)
            if isinstance(l, int) and isinstance(pos, int):
                pos += l
                if pos > off:
                    raise PathEnd("panic", "byte index %d is not a char boundary (%s)" % (off, what))
            else:
                # symbolic lengths: decide boundary by asking the solver
                posn = simp(bv(pos, 64) + bv(l, 64))
                if m.decide(z3.UGT(bv(posn, 64), off), what + ":pastoff"):
                    raise PathEnd("panic", "byte index %d is not a char boundary (%s)" % (off, what))
                pos = posn
                if m.decide(bv(pos, 64) == off, what + ":at"):
                    return i + 1
        if isinstance(pos, int):
            if pos == off:
                return len(chars)
            raise PathEnd("panic", "byte index %d out of range (%s)" % (off, what))
        if m.decide(bv(pos, 64) == off, what + ":end"):
            return len(chars)
        raise PathEnd("panic", "byte index %d out of range (%s)" % (off, what))
    # symbolic offset: find the char index whose prefix length equals it
    pos = 0
    for i in range(len(chars) + 1):
        if m.decide(bv(pos, 64) == off, what + ":symoff"):
            return i
        if i < len(chars):
            l = m.utf8_len(chars[i])
            pos = simp(bv(pos, 64) + bv(l, 64))
    raise PathEnd("panic", "symbolic byte index not on a char boundary (%s)" % what)


@summary(r"core::str::traits::<impl std::ops::Index<I> for str>::index",
         r"<std::string::String as std::ops::Index<I>>::index")
def s_str_index(m, st, info, args):
    s = as_str(m, args[0])
    r = args[1]
    tn = m.p.types.get(r.ty, {}).get("name", "") if isinstance(r, Agg) else ""
    lo, hi = 0, len(s)
    if tn.endswith("RangeFrom"):
        lo = char_index_of_byte(m, s, r.f[0], "str[a..]")
    elif tn.endswith("RangeTo"):
        hi = char_index_of_byte(m, s, r.f[0], "str[..b]")
    elif tn.endswith("RangeFull"):
        pass
    elif tn.endswith("RangeInclusive") or tn.endswith("RangeToInclusive"):
        raise Unsupported("inclusive str range")
    elif tn.endswith("Range"):
        lo = char_index_of_byte(m, s, r.f[0], "str[a..b]")
        hi = char_index_of_byte(m, s, r.f[1], "str[a..b]")
        if lo > hi:
            raise PathEnd("panic", "str slice start > end")
    else:
        raise Unsupported("str index by " + tn)
    return StrRef(s[lo:hi])


@summary(r"core::str::<impl str>::strip_prefix")
def s_strip_prefix(m, st, info, args):
    s = as_str(m, args[0])
    pat = args[1]
    tid = ret_ty(m, info)
    if isinstance(pat, (StrRef, StrBuf, Ptr)):
        p = as_str(m, pat)
        if len(p) > len(s):
            return mk_none(m, tid)
        if m.decide(chars_eq(s[: len(p)], p), "strip_prefix"):
            return mk_some(m, tid, StrRef(s[len(p):]))
        return mk_none(m, tid)
    # char pattern
    if not s:
        return mk_none(m, tid)
    if m.decide(v_eq(s[0], pat), "strip_prefix-char"):
        return mk_some(m, tid, StrRef(s[1:]))
    return mk_none(m, tid)


@summary(r"core::str::<impl str>::strip_suffix")
def s_strip_suffix(m, st, info, args):
    s = as_str(m, args[0])
    pat = args[1]
    tid = ret_ty(m, info)
    if isinstance(pat, (StrRef, StrBuf, Ptr)):
        p = as_str(m, pat)
        if len(p) > len(s):
            return mk_none(m, tid)
        if m.decide(chars_eq(s[len(s) - len(p):], p), "strip_suffix"):
            return mk_some(m, tid, StrRef(s[: len(s) - len(p)]))
        return mk_none(m, tid)
    if not s:
        return mk_none(m, tid)
    if m.decide(v_eq(s[-1], pat), "strip_suffix-char"):
        return mk_some(m, tid, StrRef(s[:-1]))
    return mk_none(m, tid)


@summary(r"core::str::<impl str>::starts_with")
def s_starts_with(m, st, info, args):
    s = as_str(m, args[0])
    pat = args[1]
    if isinstance(pat, (StrRef, StrBuf, Ptr)):
        p = as_str(m, pat)
        if len(p) > len(s):
            return False
        return chars_eq(s[: len(p)], p)
    if not s:
        return False
    return v_eq(s[0], pat)


@summary(r"core::str::<impl str>::ends_with")
def s_ends_with(m, st, info, args):
    s = as_str(m, args[0])
    pat = args[1]
    if isinstance(pat, (StrRef, StrBuf, Ptr)):
        p = as_str(m, pat)
        if len(p) > len(s):
            return False
        return chars_eq(s[len(s) - len(p):], p)
    if not s:
        return False
    return v_eq(s[-1], pat)


@summary(r"core::str::<impl str>::contains")
def s_contains(m, st, info, args):
    s = as_str(m, args[0])
    pat = args[1]
    if isinstance(pat, (StrRef, StrBuf, Ptr)):
        p = as_str(m, pat)
        if len(p) == 0:
            return True
        return b_or(*[chars_eq(s[i:i + len(p)], p) for i in range(0, len(s) - len(p) + 1)])
    if isinstance(pat, int) or is_sym(pat):
        return b_or(*[v_eq(c, pat) for c in s])
    raise Unsupported("str::contains with pattern %r" % (pat,))


def parse_uint(m, chars, radix, bits, tid, allow_minus=False):
    """value-level model of core::num::from_ascii_radix for unsigned types:
    optional leading '+', then one or more digits, overflow -> Err."""
    t = m.p.types[tid]
    err_ty = field_ty(m, tid, variant_index(m, tid, "Err"), 0)
    kind_ty = field_ty(m, err_ty, 0, 0)

    def err(kind):
        return mk_err(m, tid, Agg(err_ty, 0, [Agg(kind_ty, variant_index(m, kind_ty, kind), [])]))

    if not chars:
        return err("Empty")
    digits = list(chars)
    if m.decide(v_eq(digits[0], ord("+")), "parse-plus"):
        digits = digits[1:]
        if not digits:
            return err("InvalidDigit")
    elif m.decide(v_eq(digits[0], ord("-")), "parse-minus"):
        if len(digits) == 1:
            return err("InvalidDigit")
        # unsigned: the '-' is treated as an invalid digit below
    acc = 0
    W = 128
    for c in digits:
        if isinstance(c, int):
            dv = digit_value(c, radix)
            if dv is None:
                return err("InvalidDigit")
        else:
            c64 = c
            is_dec = z3.And(z3.UGE(c64, ord("0")), z3.ULE(c64, ord("0") + min(radix, 10) - 1))
            conds = [is_dec]
            if radix > 10:
                is_lo = z3.And(z3.UGE(c64, ord("a")), z3.ULE(c64, ord("a") + radix - 11))
                is_up = z3.And(z3.UGE(c64, ord("A")), z3.ULE(c64, ord("A") + radix - 11))
                conds += [is_lo, is_up]
            if not m.decide(z3.Or(*conds), "parse-digit"):
                return err("InvalidDigit")
            cw = z3.ZeroExt(W - 32, c64)
            dv = cw - ord("0")
            if radix > 10:
                dv = z3.If(is_dec, cw - ord("0"), z3.If(is_lo, cw - ord("a") + 10, cw - ord("A") + 10))
        acc = simp(bv(acc, W) * radix + bv(dv, W)) if (is_sym(acc) or is_sym(dv)) else acc * radix + dv
        lim = (1 << bits) - 1
        if isinstance(acc, int):
            if acc > lim:
                return err("PosOverflow")
        else:
            if m.decide(z3.UGT(acc, lim), "parse-overflow"):
                return err("PosOverflow")
    if isinstance(acc, int):
        return mk_ok(m, tid, acc)
    return mk_ok(m, tid, simp(z3.Extract(bits - 1, 0, acc)))


def digit_value(c, radix):
    if ord("0") <= c <= ord("9"):
        v = c - ord("0")
    elif ord("a") <= c <= ord("z"):
        v = c - ord("a") + 10
    elif ord("A") <= c <= ord("Z"):
        v = c - ord("A") + 10
    else:
        return None
    return v if v < radix else None


@summary(r"core::num::<impl std::str::FromStr for u32>::from_str")
def s_u32_from_str(m, st, info, args):
    return parse_uint(m, as_str(m, args[0]), 10, 32, ret_ty(m, info))


@summary(r"core::num::<impl u32>::from_str_radix")
def s_u32_from_str_radix(m, st, info, args):
    radix = args[1]
    if not isinstance(radix, int):
        raise Unsupported("symbolic radix")
    return parse_uint(m, as_str(m, args[0]), radix, 32, ret_ty(m, info))


@summary(r"core::num::<impl std::str::FromStr for usize>::from_str", r"core::num::<impl std::str::FromStr for u64>::from_str")
def s_u64_from_str(m, st, info, args):
    return parse_uint(m, as_str(m, args[0]), 10, 64, ret_ty(m, info))


# --- char classification -------------------------------------------------------

WHITE_SPACE = [(0x9, 0xD), (0x20, 0x20), (0x85, 0x85), (0xA0, 0xA0), (0x1680, 0x1680), (0x2000, 0x200A),
               (0x2028, 0x2029), (0x202F, 0x202F), (0x205F, 0x205F), (0x3000, 0x3000)]


@summary(r"std::char::methods::<impl char>::is_whitespace", r"core::char::methods::<impl char>::is_whitespace")
def s_is_whitespace(m, st, info, args):
    c = args[0]
    if isinstance(c, int):
        return any(lo <= c <= hi for lo, hi in WHITE_SPACE)
    return simp(z3.Or(*[z3.And(z3.UGE(c, lo), z3.ULE(c, hi)) if lo != hi else c == lo for lo, hi in WHITE_SPACE]))


@summary(r"core::unicode::unicode_data::white_space::lookup")
def s_ws_lookup(m, st, info, args):
    return s_is_whitespace(m, st, info, args)


# ---------------------------------------------------------------------------
# Box / alloc


def build_box(m, tid, ptr):
    """construct a value of (Box-like) type tid around pointer ptr, following
    the first non-ZST field chain down to the raw pointer field."""
    t = m.p.types[tid]
    if t["k"] in ("ptr", "ref"):
        return ptr
    if t["k"] != "adt":
        raise Unsupported("build_box on " + t.get("s_", "?"))
    fields = t["variants"][0]["fields"]
    out = []
    placed = False
    for f in fields:
        ft = m.p.types[f["ty"]]
        if ft.get("size") == 0 or placed:
            out.append(Agg(f["ty"], 0, []))
        else:
            out.append(build_box(m, f["ty"], ptr))
            placed = True
    return Agg(tid, 0, out)


@summary(r"std::boxed::Box::<T>::new")
def s_box_new(m, st, info, args):
    return build_box(m, ret_ty(m, info), Ptr(Cell(args[0]), ()))


# ---------------------------------------------------------------------------
# intrinsics


def i_nop(m, st, info, args):
    return unit()


def i_identity(m, st, info, args):
    return args[0]


def i_unreachable(m, st, info, args):
    raise PathEnd("unreachable", "intrinsics::unreachable")


def i_abort(m, st, info, args):
    raise PathEnd("panic", "abort")


def i_assume(m, st, info, args):
    if args[0] is False:
        raise PathEnd("infeasible")
    return unit()


INTRINSICS = {
    "cold_path": i_nop,
    "black_box": i_identity,
    "likely": i_identity,
    "unlikely": i_identity,
    "assume": i_assume,
    "unreachable": i_unreachable,
    "abort": i_abort,
    "assert_inhabited": i_nop,
    "assert_zero_valid": i_nop,
    "assert_mem_uninitialized_valid": i_nop,
}


# ---------------------------------------------------------------------------
# Vec<T>  (value-level: VecVal; slices are views (Ptr with ('slice',start,len)
# meta) and element pointers are Ptr(cell, path+(index,)) - the slice iterator
# code of core is interpreted on top of that pointer model)


def vec_of(m, p):
    v = deref(m, p)
    if not isinstance(v, VecVal):
        raise Unsupported("expected Vec, got %r" % (v,))
    return v


def vec_ptr(m, p):
    p = m.unwrap_ptr(p)
    if not isinstance(p, Ptr):
        raise Unsupported("expected pointer to Vec")
    return p


@summary(r"std::vec::Vec::<T>::new", r"std::vec::Vec::<T, A>::new_in", r"std::vec::Vec::<T>::with_capacity",
         r"std::vec::Vec::<T, A>::with_capacity_in", r"<std::vec::Vec<T> as std::default::Default>::default")
def s_vec_new(m, st, info, args):
    return VecVal()


@summary(r"std::vec::Vec::<T, A>::push")
def s_vec_push(m, st, info, args):
    vec_of(m, args[0]).items.append(args[1])
    return unit()


@summary(r"std::vec::Vec::<T, A>::push_mut")
def s_vec_push_mut(m, st, info, args):
    p = vec_ptr(m, args[0])
    v = vec_of(m, p)
    v.items.append(args[1])
    return Ptr(p.cell, p.path + (len(v.items) - 1,))


@summary(r"std::vec::Vec::<T, A>::pop")
def s_vec_pop(m, st, info, args):
    v = vec_of(m, args[0])
    tid = ret_ty(m, info)
    if not v.items:
        return mk_none(m, tid)
    return mk_some(m, tid, v.items.pop())


@summary(r"std::vec::Vec::<T, A>::len")
def s_vec_len(m, st, info, args):
    return len(vec_of(m, args[0]).items)


@summary(r"std::vec::Vec::<T, A>::is_empty")
def s_vec_is_empty(m, st, info, args):
    return len(vec_of(m, args[0]).items) == 0


@summary(r"std::vec::Vec::<T, A>::capacity")
def s_vec_capacity(m, st, info, args):
    return len(vec_of(m, args[0]).items)


@summary(r"std::vec::Vec::<T, A>::clear")
def s_vec_clear(m, st, info, args):
    vec_of(m, args[0]).items.clear()
    return unit()


@summary(r"std::vec::Vec::<T, A>::truncate")
def s_vec_truncate(m, st, info, args):
    n = m.index_value(args[1])
    del vec_of(m, args[0]).items[n:]
    return unit()


@summary(r"std::vec::Vec::<T, A>::reserve", r"std::vec::Vec::<T, A>::reserve_exact", r"std::vec::Vec::<T, A>::shrink_to_fit")
def s_vec_reserve(m, st, info, args):
    return unit()


@summary(r"std::vec::Vec::<T, A>::insert")
def s_vec_insert(m, st, info, args):
    v = vec_of(m, args[0])
    i = m.index_value(args[1])
    if i > len(v.items):
        raise PathEnd("panic", "Vec::insert index out of bounds")
    v.items.insert(i, args[2])
    return unit()


@summary(r"std::vec::Vec::<T, A>::remove")
def s_vec_remove(m, st, info, args):
    v = vec_of(m, args[0])
    i = m.index_value(args[1])
    if i >= len(v.items):
        raise PathEnd("panic", "Vec::remove index out of bounds")
    return v.items.pop(i)


@summary(r"std::vec::Vec::<T, A>::swap_remove")
def s_vec_swap_remove(m, st, info, args):
    v = vec_of(m, args[0])
    i = m.index_value(args[1])
    if i >= len(v.items):
        raise PathEnd("panic", "Vec::swap_remove index out of bounds")
    x = v.items[i]
    last = v.items.pop()
    if i < len(v.items):
        v.items[i] = last
    return x


@summary(r"std::vec::Vec::<T, A>::extend_from_slice")
def s_vec_extend_from_slice(m, st, info, args):
    v = vec_of(m, args[0])
    v.items.extend(copy_value(x) for x in slice_items(m, args[1]))
    return unit()


@summary(r"std::vec::Vec::<T, A>::append")
def s_vec_append(m, st, info, args):
    v = vec_of(m, args[0])
    o = vec_of(m, args[1])
    v.items.extend(o.items)
    o.items = []
    return unit()


def slice_ptr_of_vec(m, p):
    p = vec_ptr(m, p)
    v = vec_of(m, p)
    return Ptr(p.cell, p.path, ("slice", 0, len(v.items)))


@summary(r"<std::vec::Vec<T, A> as std::ops::Deref>::deref", r"<std::vec::Vec<T, A> as std::ops::DerefMut>::deref_mut",
         r"std::vec::Vec::<T, A>::as_slice", r"std::vec::Vec::<T, A>::as_mut_slice",
         r"<std::vec::Vec<T, A> as std::convert::AsRef<\[T\]>>::as_ref",
         r"<std::vec::Vec<T, A> as std::borrow::Borrow<\[T\]>>::borrow")
def s_vec_deref(m, st, info, args):
    return slice_ptr_of_vec(m, args[0])


@summary(r"std::vec::Vec::<T, A>::as_ptr", r"std::vec::Vec::<T, A>::as_mut_ptr")
def s_vec_as_ptr(m, st, info, args):
    p = vec_ptr(m, args[0])
    return Ptr(p.cell, p.path + (0,))


def slice_items(m, p):
    """items of a &[T] / &Vec<T> / &[T;N]"""
    if type(p) is BytesRef:
        p = m.materialize_bytes(p.chars)
    p = m.unwrap_ptr(p) if isinstance(p, Agg) else p
    if not isinstance(p, Ptr):
        raise Unsupported("expected slice pointer, got %r" % (p,))
    cont = m.read_loc(Loc(p.cell, p.path))
    if not isinstance(cont, VecVal):
        raise Unsupported("slice over %r" % (cont,))
    if p.meta is not None and p.meta[0] == "slice":
        return cont.items[p.meta[1]:p.meta[1] + p.meta[2]]
    return cont.items


@summary(r"<std::vec::Vec<T, A> as std::ops::Index<I>>::index", r"<std::vec::Vec<T, A> as std::ops::IndexMut<I>>::index_mut")
def s_vec_index(m, st, info, args):
    p = vec_ptr(m, args[0])
    v = vec_of(m, p)
    idx = args[1]
    n = len(v.items)
    if isinstance(idx, Agg):
        tn = m.p.types.get(idx.ty, {}).get("name", "")
        lo, hi = 0, n
        if tn.endswith("RangeFrom"):
            lo = m.index_value(idx.f[0])
        elif tn.endswith("RangeTo"):
            hi = m.index_value(idx.f[0])
        elif tn.endswith("RangeFull"):
            pass
        elif tn.endswith("RangeToInclusive"):
            hi = m.index_value(idx.f[0]) + 1
        elif tn.endswith("RangeInclusive"):
            lo, hi = m.index_value(idx.f[0]), m.index_value(idx.f[1]) + 1
        elif tn.endswith("Range"):
            lo, hi = m.index_value(idx.f[0]), m.index_value(idx.f[1])
        else:
            raise Unsupported("Vec index by " + tn)
        if lo > hi or hi > n:
            raise PathEnd("panic", "slice index out of range")
        return Ptr(p.cell, p.path, ("slice", lo, hi - lo))
    i = m.index_value(idx)
    if i >= n:
        raise PathEnd("panic", "index out of bounds: the len is %d but the index is %d" % (n, i))
    return Ptr(p.cell, p.path + (i,))


@summary(r"<std::vec::Vec<T, A> as std::clone::Clone>::clone", r"std::slice::<impl \[T\]>::to_vec",
         r"std::slice::<impl \[T\]>::to_vec_in", r"<\[T\] as std::borrow::ToOwned>::to_owned",
         r"<T as std::slice::<impl \[T\]>::to_vec_in::ConvertVec>::to_vec")
def s_vec_clone(m, st, info, args):
    return VecVal([copy_value(x) for x in slice_items(m, args[0])])


@summary(r"<std::vec::Vec<T, A> as std::iter::IntoIterator>::into_iter")
def s_vec_into_iter(m, st, info, args):
    """build the real vec::IntoIter struct (buf, phantom, cap, alloc, ptr, end)
    over a heap copy of the items, so that core's own IntoIter code (next,
    try_fold, fold, ...) is interpreted on element pointers"""
    v = args[0]
    if not isinstance(v, VecVal):
        raise Unsupported("into_iter on %r" % (v,))
    tid = ret_ty(m, info)
    t = m.p.types[tid]
    cell = Cell(VecVal(list(v.items)))
    n = len(v.items)
    out = []
    for f in t["variants"][0]["fields"]:
        ft = m.p.types[f["ty"]]
        nm = f["name"]
        if nm in ("buf", "ptr"):
            p = Ptr(cell, (0,))
            out.append(m.wrap_newtype(f["ty"], p) if ft["k"] == "adt" else p)
        elif nm == "end":
            p = Ptr(cell, (n,))
            out.append(m.wrap_newtype(f["ty"], p) if ft["k"] == "adt" else p)
        elif nm == "cap":
            out.append(n)
        else:
            out.append(Agg(f["ty"], 0, []))
    return Agg(tid, 0, out)


def find_next_instance(m, fn, iter_ty_name, depth=6):
    """locate the `<I as Iterator>::next` instance for iterator type I in the
    (dumped) call graph below a summarised std function."""
    want = "<%s as std::iter::Iterator>::next" % iter_ty_name
    seen = set()
    frontier = [fn]
    for _ in range(depth):
        nxt = []
        for f in frontier:
            body = f.get("body")
            if not body:
                continue
            for blk in body["blocks"]:
                t = blk["t"]
                if t[0] != "call":
                    continue
                ci = t[1]
                if "fn" not in ci:
                    continue
                if ci.get("name") == want:
                    return ci
                if ci["fn"] not in seen:
                    seen.add(ci["fn"])
                    g = m.p.fns.get(ci["fn"])
                    if g:
                        nxt.append(g)
        frontier = nxt
    # fall back to any dumped instance with that name
    for k, f in m.p.fns.items():
        if f["name"] == want:
            return {"fn": k, "name": f["name"], "def": f["def"], "kind": f["kind"]}
    return None


def _drain_item(m, data, x):
    mode = data["mode"]
    if mode in ("vec_from", "pending"):
        data["acc"].items.append(x)
    elif mode == "vec_extend":
        vec_of(m, data["acc"]).items.append(x)
    elif mode == "string_from":
        if isinstance(x, (StrRef, StrBuf)):
            data["acc"].chars.extend(as_str(m, x))
        else:
            data["acc"].chars.append(x)
    elif mode in ("map_extend", "set_extend"):
        mp = map_of(m, data["acc"])
        k, v = (x, unit()) if mode == "set_extend" else (x.f[0], x.f[1])
        for e in mp.entries:
            eq = keys_equal(m, e[0], k)
            if eq is True:
                e[1] = v
                return
            if eq is not False:
                raise Unsupported("symbolic duplicate keys in HashMap::extend")
        mp.entries.append([k, v])
    else:
        raise Unsupported("drain mode " + mode)


def _drain_done(m, data):
    mode = data["mode"]
    if mode in ("vec_from", "string_from"):
        return data["acc"]
    if mode in ("vec_extend", "map_extend", "set_extend"):
        return unit()
    if mode == "pending":
        out = MapVal()
        is_set = data["is_set"]
        for x in data["acc"].items:
            k, v = (x, unit()) if is_set else (x.f[0], x.f[1])
            dup = False
            for e in out.entries:
                eq = keys_equal(m, e[0], k)
                if eq is True:
                    e[1] = v
                    dup = True
                    break
                if eq is not False:
                    raise Unsupported("symbolic duplicate keys in HashMap::from_iter")
            if not dup:
                out.entries.append([k, v])
        return out
    raise Unsupported("drain mode " + mode)


def _drain_next(m, st, opt, data):
    if not isinstance(opt, Agg):
        raise Unsupported("iterator next returned %r" % (opt,))
    if len(opt.f) == 0:
        return _drain_done(m, data)
    _drain_item(m, data, opt.f[0])
    return TailCall(data["nxt"], [data["ptr"]], Cont(_drain_next, data))


def _drain_start(m, st, itv, data):
    if isinstance(itv, VecVal):
        for x in itv.items:
            _drain_item(m, data, x)
        return _drain_done(m, data)
    data["ptr"].cell.v = itv
    return TailCall(data["nxt"], [data["ptr"]], Cont(_drain_next, data))


def drain_iterator(m, st, info, it_value, it_ty, mode, acc, is_set=False):
    """drive the iterator argument of a summarised from_iter/extend with the
    real (MIR) `into_iter` / `next` that mirdump pre-resolved for it. The
    continuation is data-driven (Cont) so that it survives state forks."""
    data = {"mode": mode, "acc": acc, "is_set": is_set, "nxt": None, "ptr": None}
    if isinstance(it_value, VecVal):
        for x in it_value.items:
            _drain_item(m, data, x)
        return _drain_done(m, data)
    fn = m.p.fns[info["fn"]]
    nxt = fn.get("iter_next")
    into = fn.get("into_iter")
    if nxt is None or into is None:
        tname = m.p.types[it_ty]["s_"]
        nxt = find_next_instance(m, fn, tname)
        into = None
        if nxt is None:
            raise Unsupported("cannot locate Iterator::next for " + tname)
    data["nxt"] = nxt
    data["ptr"] = Ptr(Cell(None), ())
    if into is not None:
        return TailCall(into, [it_value], Cont(_drain_start, data))
    data["ptr"].cell.v = it_value
    return TailCall(nxt, [data["ptr"]], Cont(_drain_next, data))


@summary(r"<std::vec::Vec<T> as std::iter::FromIterator<T>>::from_iter",
         r"<std::vec::Vec<T> as std::vec::spec_from_iter::SpecFromIter<T, I>>::from_iter")
def s_vec_from_iter(m, st, info, args):
    it = args[0]
    if isinstance(it, VecVal):
        return it
    it_ty = m.p.fns[info["fn"]]["arg_tys"][0]
    return drain_iterator(m, st, info, it, it_ty, "vec_from", VecVal())


@summary(r"<std::vec::Vec<T, A> as std::iter::Extend<T>>::extend", r"<std::vec::Vec<T, A> as std::iter::Extend<&'a T>>::extend")
def s_vec_extend(m, st, info, args):
    v = vec_of(m, args[0])
    it = args[1]
    if isinstance(it, VecVal):
        v.items.extend(it.items)
        return unit()
    it_ty = m.p.fns[info["fn"]]["arg_tys"][1]
    return drain_iterator(m, st, info, it, it_ty, "vec_extend", vec_ptr(m, args[0]))


@summary(r"<std::string::String as std::iter::FromIterator<char>>::from_iter",
         r"<std::string::String as std::iter::FromIterator<&'a str>>::from_iter",
         r"<std::string::String as std::iter::FromIterator<std::string::String>>::from_iter")
def s_string_from_iter(m, st, info, args):
    it_ty = m.p.fns[info["fn"]]["arg_tys"][0]
    return drain_iterator(m, st, info, args[0], it_ty, "string_from", StrBuf())


# ---------------------------------------------------------------------------
# raw pointer arithmetic on element pointers


def ptr_add(m, p, n):
    if not isinstance(p, Ptr):
        p = m.unwrap_ptr(p)
    if not isinstance(p, Ptr) or not p.path:
        raise Unsupported("pointer arithmetic on %r" % (p,))
    n = m.index_value(n) if not isinstance(n, int) else n
    if n >= (1 << 63):
        n -= 1 << 64
    return Ptr(p.cell, p.path[:-1] + (p.path[-1] + n,), p.meta)


def i_offset(m, st, info, args):
    return ptr_add(m, args[0], args[1])


def i_ptr_offset_from(m, st, info, args):
    a, b = m.unwrap_ptr(args[0]), m.unwrap_ptr(args[1])
    if not (isinstance(a, Ptr) and isinstance(b, Ptr)) or a.cell is not b.cell or a.path[:-1] != b.path[:-1]:
        raise Unsupported("ptr_offset_from on unrelated pointers")
    return (a.path[-1] - b.path[-1]) & mask(64)


INTRINSICS.update({
    "offset": i_offset,
    "arith_offset": i_offset,
    "ptr_offset_from": i_ptr_offset_from,
    "ptr_offset_from_unsigned": i_ptr_offset_from,
})


# ---------------------------------------------------------------------------
# HashMap / HashSet as association lists.  Key equality is structural and may
# be symbolic (decided by the solver, forking).  Iteration order is insertion
# order (real HashMap order is unspecified: see DESIGN, trusted base).


def keys_equal(m, a, b):
    """structural equality -> bool / z3 Bool"""
    if isinstance(a, Ptr):
        a = deref(m, a)
    if isinstance(b, Ptr):
        b = deref(m, b)
    if isinstance(a, (StrRef, StrBuf)) and isinstance(b, (StrRef, StrBuf)):
        return chars_eq(tuple(a.chars), tuple(b.chars))
    if isinstance(a, Agg) and isinstance(b, Agg):
        if a.var != b.var or len(a.f) != len(b.f):
            return False
        return b_and(*[keys_equal(m, x, y) for x, y in zip(a.f, b.f)])
    if isinstance(a, VecVal) and isinstance(b, VecVal):
        if len(a.items) != len(b.items):
            return False
        return b_and(*[keys_equal(m, x, y) for x, y in zip(a.items, b.items)])
    if isinstance(a, (bool, int)) or is_sym(a):
        return v_eq(a, b)
    raise Unsupported("hash key comparison of %r and %r" % (a, b))


def map_of(m, p):
    v = deref(m, p)
    if isinstance(v, Agg) and len(v.f) >= 1 and isinstance(v.f[0], MapVal):
        v = v.f[0]  # ahash::AHashMap newtype
    if not isinstance(v, MapVal):
        raise Unsupported("expected HashMap, got %r" % (v,))
    return v


def key_fp(m, k):
    """hashable fingerprint of a fully concrete key (equal fingerprints <=> keys_equal), else None"""
    if isinstance(k, Ptr):
        k = deref(m, k)
    if isinstance(k, (StrRef, StrBuf)):
        cs = tuple(k.chars)
        for c in cs:
            if not isinstance(c, int):
                return None
        return ("s", cs)
    if isinstance(k, bool):
        return int(k)
    if isinstance(k, int):
        return k
    if isinstance(k, Agg):
        parts = []
        for x in k.f:
            q = key_fp(m, x)
            if q is None:
                return None
            parts.append(q)
        return ("a", k.var, tuple(parts))
    if isinstance(k, VecVal):
        parts = []
        for x in k.items:
            q = key_fp(m, x)
            if q is None:
                return None
            parts.append(q)
        return ("v", tuple(parts))
    return None


def map_find(m, mp, key):
    """index of the entry equal to key or None (forks on symbolic equality)."""
    fp = key_fp(m, key)
    if fp is not None:
        # concrete key: hash lookup among the concrete keys (a map never holds two equal keys, so an
        # entry with a symbolic key cannot equal a key that is present concretely)
        if mp.idx is None:
            mp.idx, mp.idx_sym, mp.idx_n = {}, [], 0
        if mp.idx_n > len(mp.entries):
            mp.idx, mp.idx_sym, mp.idx_n = {}, [], 0
        while mp.idx_n < len(mp.entries):
            q = key_fp(m, mp.entries[mp.idx_n][0])
            if q is None:
                mp.idx_sym.append(mp.idx_n)
            else:
                mp.idx.setdefault(q, mp.idx_n)
            mp.idx_n += 1
        i = mp.idx.get(fp)
        if i is not None:
            return i
        for i in mp.idx_sym:
            if m.decide(keys_equal(m, mp.entries[i][0], key), "map-key-eq"):
                return i
        return None
    for i, (k, _v) in enumerate(mp.entries):
        if m.decide(keys_equal(m, k, key), "map-key-eq"):
            return i
    return None


@summary(r"<std::collections::HashMap<K, V, S> as std::default::Default>::default",
         r"std::collections::HashMap::<K, V, S>::with_hasher", r"<std::collections::HashMap<K, V, S> as ahash::HashMapExt>::new",
         r"<std::collections::HashMap<K, V, S> as ahash::HashMapExt>::with_capacity",
         r"std::collections::HashMap::<K, V, S>::with_capacity_and_hasher",
         r"<std::collections::HashSet<T, S> as std::default::Default>::default",
         r"std::collections::HashSet::<T, S>::with_hasher", r"<std::collections::HashSet<K, S> as ahash::HashSetExt>::new",
         r"<std::collections::HashSet<T, S> as ahash::HashSetExt>::new",
         r"std::collections::HashMap::<K, V>::new", r"std::collections::HashSet::<T>::new")
def s_map_new(m, st, info, args):
    return MapVal()


@summary(r"<ahash::AHashMap<K, V, S> as std::default::Default>::default", r"ahash::AHashMap::<K, V>::new",
         r"ahash::AHashMap::<K, V, S>::with_hasher", r"ahash::AHashMap::<K, V>::with_capacity")
def s_ahashmap_new(m, st, info, args):
    return Agg(ret_ty(m, info), 0, [MapVal()])


@summary(r"ahash::random_state::RandomState::new", r"<ahash::random_state::RandomState as std::default::Default>::default",
         r"<ahash::RandomState as std::default::Default>::default", r"ahash::RandomState::new")
def s_random_state(m, st, info, args):
    return Agg(ret_ty(m, info), 0, [0, 0, 0, 0])


@summary(r"std::collections::HashMap::<K, V, S, A>::insert", r"ahash::AHashMap::<K, V, S>::insert")
def s_map_insert(m, st, info, args):
    mp = map_of(m, args[0])
    tid = ret_ty(m, info)
    i = map_find(m, mp, args[1])
    if i is None:
        mp.entries.append([args[1], args[2]])
        return mk_none(m, tid)
    old = mp.entries[i][1]
    mp.entries[i][1] = args[2]
    return mk_some(m, tid, old)


@summary(r"std::collections::HashMap::<K, V, S, A>::get", r"std::collections::HashMap::<K, V, S, A>::get_mut",
         r"ahash::AHashMap::<K, V, S>::get")
def s_map_get(m, st, info, args):
    p = m.unwrap_ptr(args[0])
    mp = map_of(m, p)
    tid = ret_ty(m, info)
    i = map_find(m, mp, args[1])
    if i is None:
        return mk_none(m, tid)
    cont = deref(m, p)
    path = p.path + ((0,) if isinstance(cont, Agg) else ())
    return mk_some(m, tid, Ptr(p.cell, path + ("map", i)))


@summary(r"std::collections::HashMap::<K, V, S, A>::contains_key")
def s_map_contains_key(m, st, info, args):
    return map_find(m, map_of(m, args[0]), args[1]) is not None


@summary(r"std::collections::HashMap::<K, V, S, A>::remove")
def s_map_remove(m, st, info, args):
    mp = map_of(m, args[0])
    tid = ret_ty(m, info)
    i = map_find(m, mp, args[1])
    if i is None:
        return mk_none(m, tid)
    mp.touched()
    return mk_some(m, tid, mp.entries.pop(i)[1])


@summary(r"std::collections::HashMap::<K, V, S, A>::len", r"std::collections::HashSet::<T, S, A>::len")
def s_map_len(m, st, info, args):
    return len(map_of(m, args[0]).entries)


@summary(r"std::collections::HashMap::<K, V, S, A>::is_empty", r"std::collections::HashSet::<T, S, A>::is_empty")
def s_map_is_empty(m, st, info, args):
    return len(map_of(m, args[0]).entries) == 0


@summary(r"std::collections::HashMap::<K, V, S, A>::clear", r"std::collections::HashSet::<T, S, A>::clear")
def s_map_clear(m, st, info, args):
    map_of(m, args[0]).entries.clear()
    map_of(m, args[0]).touched()
    return unit()


@summary(r"std::collections::HashSet::<T, S, A>::insert")
def s_set_insert(m, st, info, args):
    mp = map_of(m, args[0])
    i = map_find(m, mp, args[1])
    if i is None:
        mp.entries.append([args[1], unit()])
        return True
    return False


@summary(r"std::collections::HashSet::<T, S, A>::contains")
def s_set_contains(m, st, info, args):
    return map_find(m, map_of(m, args[0]), args[1]) is not None


@summary(r"std::collections::HashSet::<T, S, A>::remove")
def s_set_remove(m, st, info, args):
    mp = map_of(m, args[0])
    i = map_find(m, mp, args[1])
    if i is None:
        return False
    mp.entries.pop(i)
    mp.touched()
    return True


@summary(r"std::num::NonZero::<T>::new")
def s_nonzero_new(m, st, info, args):
    tid = ret_ty(m, info)
    n = args[0]
    if m.decide(v_eq(n, 0), "nonzero"):
        return mk_none(m, tid)
    some = variant_index(m, tid, "Some")
    return Agg(tid, some, [m.wrap_newtype(field_ty(m, tid, some, 0), n)])


def map_ptr(m, p):
    """(cell, path) of the MapVal behind a &HashMap / &AHashMap"""
    p = m.unwrap_ptr(p)
    cont = deref(m, p)
    path = p.path + ((0,) if isinstance(cont, Agg) else ())
    return p.cell, path


@summary(r"<std::collections::HashMap<K, V, S, A> as std::iter::IntoIterator>::into_iter",
         r"<std::collections::HashSet<T, S, A> as std::iter::IntoIterator>::into_iter",
         r"std::collections::HashMap::<K, V, S, A>::into_keys", r"std::collections::HashMap::<K, V, S, A>::into_values",
         r"std::collections::HashMap::<K, V, S, A>::drain")
def s_map_into_iter(m, st, info, args):
    v = args[0]
    if isinstance(v, Ptr):
        mp = map_of(m, v)
        ents = list(mp.entries)
        mp.entries = []
        mp.touched()
    else:
        if isinstance(v, Agg) and v.f and isinstance(v.f[0], MapVal):
            v = v.f[0]
        ents = v.entries
    d = info.get("def", "")
    mode = "key" if ("HashSet" in d or "into_keys" in d) else ("val" if "into_values" in d else "pair")
    return Obj("map_into_iter", ents=[list(e) for e in ents], i=0, mode=mode)


@summary(r"<std::collections::hash_map::IntoIter<K, V, A> as std::iter::Iterator>::next",
         r"<std::collections::hash_set::IntoIter<K, A> as std::iter::Iterator>::next",
         r"<std::collections::hash_map::IntoKeys<K, V, A> as std::iter::Iterator>::next",
         r"<std::collections::hash_map::IntoValues<K, V, A> as std::iter::Iterator>::next",
         r"<std::collections::hash_map::Drain<'a, K, V, A> as std::iter::Iterator>::next")
def s_map_into_iter_next(m, st, info, args):
    it = deref(m, args[0])
    tid = ret_ty(m, info)
    d = it.d
    if d["i"] >= len(d["ents"]):
        return mk_none(m, tid)
    k, v = d["ents"][d["i"]]
    d["i"] += 1
    if d["mode"] == "key":
        return mk_some(m, tid, k)
    if d["mode"] == "val":
        return mk_some(m, tid, v)
    some = variant_index(m, tid, "Some")
    return Agg(tid, some, [Agg(field_ty(m, tid, some, 0), 0, [k, v])])


@summary(r"std::collections::HashMap::<K, V, S, A>::iter", r"std::collections::HashMap::<K, V, S, A>::iter_mut",
         r"std::collections::HashMap::<K, V, S, A>::keys", r"std::collections::HashMap::<K, V, S, A>::values",
         r"std::collections::HashMap::<K, V, S, A>::values_mut", r"std::collections::HashSet::<T, S, A>::iter",
         r"<&'a std::collections::HashMap<K, V, S, A> as std::iter::IntoIterator>::into_iter",
         r"<&'a std::collections::HashSet<T, S, A> as std::iter::IntoIterator>::into_iter")
def s_map_iter(m, st, info, args):
    cell, path = map_ptr(m, args[0])
    mp = map_of(m, args[0])
    d = info.get("def", "")
    if "HashSet" in d or d.endswith("::keys"):
        mode = "key"
    elif "values" in d:
        mode = "val"
    else:
        mode = "pair"
    return Obj("map_iter", cell=Ptr(cell, path), n=len(mp.entries), i=0, mode=mode)


@summary(r"<std::collections::hash_map::Iter<'a, K, V> as std::iter::Iterator>::next",
         r"<std::collections::hash_map::IterMut<'a, K, V> as std::iter::Iterator>::next",
         r"<std::collections::hash_map::Keys<'a, K, V> as std::iter::Iterator>::next",
         r"<std::collections::hash_map::Values<'a, K, V> as std::iter::Iterator>::next",
         r"<std::collections::hash_map::ValuesMut<'a, K, V> as std::iter::Iterator>::next",
         r"<std::collections::hash_set::Iter<'a, K> as std::iter::Iterator>::next")
def s_map_iter_next(m, st, info, args):
    it = deref(m, args[0])
    tid = ret_ty(m, info)
    d = it.d
    if d["i"] >= d["n"]:
        return mk_none(m, tid)
    i = d["i"]
    d["i"] += 1
    base = d["cell"]
    kp = Ptr(base.cell, base.path + ("mapkey", i))
    vp = Ptr(base.cell, base.path + ("map", i))
    if d["mode"] == "key":
        return mk_some(m, tid, kp)
    if d["mode"] == "val":
        return mk_some(m, tid, vp)
    some = variant_index(m, tid, "Some")
    return Agg(tid, some, [Agg(field_ty(m, tid, some, 0), 0, [kp, vp])])


@summary(r"<std::collections::HashMap<K, V, S> as std::iter::FromIterator<\(K, V\)>>::from_iter",
         r"<std::collections::HashSet<T, S> as std::iter::FromIterator<T>>::from_iter")
def s_map_from_iter(m, st, info, args):
    is_set = "HashSet" in info.get("def", "")
    it_ty = m.p.fns[info["fn"]]["arg_tys"][0]
    return drain_iterator(m, st, info, args[0], it_ty, "pending", VecVal(), is_set=is_set)


@summary(r"<std::collections::HashMap<K, V, S, A> as std::iter::Extend<\(K, V\)>>::extend",
         r"<std::collections::HashSet<T, S, A> as std::iter::Extend<T>>::extend")
def s_map_extend(m, st, info, args):
    is_set = "HashSet" in info.get("def", "")
    it_ty = m.p.fns[info["fn"]]["arg_tys"][1]
    p = m.unwrap_ptr(args[0])
    return drain_iterator(m, st, info, args[1], it_ty, "set_extend" if is_set else "map_extend", p)


def dig(v, cls, depth=8):
    """first value of class cls inside nested single-purpose wrappers"""
    if isinstance(v, cls):
        return v
    if depth == 0:
        return None
    if isinstance(v, Agg):
        for x in reversed(v.f):
            r = dig(x, cls, depth - 1)
            if r is not None:
                return r
    return None


@summary(r"std::boxed::Box::<T>::new_uninit", r"std::boxed::box_new_uninit")
def s_box_new_uninit(m, st, info, args):
    return build_box(m, ret_ty(m, info), Ptr(Cell(None), ()))


@summary(r"std::boxed::box_assume_init_into_vec_unsafe", r"std::slice::<impl \[T\]>::into_vec")
def s_box_into_vec(m, st, info, args):
    inner = deref(m, args[0])
    vv = dig(inner, VecVal)
    if vv is None:
        raise Unsupported("box into_vec over %r" % (inner,))
    p = m.unwrap_ptr(args[0])
    if p.meta is not None and p.meta[0] == "slice":
        return VecVal(vv.items[p.meta[1]:p.meta[1] + p.meta[2]])
    return VecVal(vv.items)


# ---------------------------------------------------------------------------
# format!  (new compact fmt::Arguments encoding: template bytes + args)


@summary(r"std::fmt::Arguments::<'a>::new")
def s_fmt_args_new(m, st, info, args):
    tmpl = slice_items(m, args[0])
    if not all(isinstance(b, int) for b in tmpl):
        raise Unsupported("symbolic format template")
    fargs = slice_items(m, args[1])
    return Obj("fmt_args", tmpl=tuple(tmpl), args=list(fargs), lit=None)


@summary(r"std::fmt::Arguments::<'a>::from_str", r"std::fmt::Arguments::<'a>::from_str_nonconst")
def s_fmt_args_from_str(m, st, info, args):
    return Obj("fmt_args", tmpl=(), args=[], lit=as_str(m, args[0]))


@summary(r"core::fmt::rt::Argument::<'_>::new_display", r"core::fmt::rt::Argument::<'_>::new_debug",
         r"core::fmt::rt::Argument::<'_>::new_upper_hex", r"core::fmt::rt::Argument::<'_>::new_lower_hex")
def s_fmt_arg_new(m, st, info, args):
    f = m.p.fns[info["fn"]]
    ty = f["targs"][0] if f.get("targs") else None
    kind = info["def"].rsplit("::new_", 1)[1]
    return Obj("fmt_arg", akind=kind, val=args[0], ty=ty)


def fmt_value(m, a):
    """chars for one `{}` argument"""
    kind, val, ty = a.d["akind"], a.d["val"], a.d["ty"]
    tname = m.p.types[ty]["s_"] if ty is not None else "?"
    v = deref(m, val)
    for _ in range(3):
        if isinstance(v, Ptr):
            v = deref(m, v)
    if kind == "display":
        if isinstance(v, (StrRef, StrBuf)):
            return list(v.chars)
        if isinstance(v, Agg) and m.p.types.get(v.ty, {}).get("name") == "std::borrow::Cow":
            return list(as_str(m, v))
        if isinstance(v, int) and not isinstance(v, bool):
            t = m.p.types[ty]
            while t["k"] == "ref":
                t = m.p.types[t["to"]]
            if t["k"] == "char":
                return [v]
            if t["k"] == "int":
                if t["s"] and v >> (t["w"] - 1):
                    v -= 1 << t["w"]
                return [ord(c) for c in str(v)]
        if is_sym(v):
            t = m.p.types[ty]
            while t["k"] == "ref":
                t = m.p.types[t["to"]]
            if t["k"] == "char":
                return [v]
    raise Unsupported("format! argument of type %s (%s) value %r" % (tname, kind, v))


def render_fmt(m, fa):
    d = fa.d
    if d["lit"] is not None:
        return list(d["lit"])
    t = d["tmpl"]
    out = []
    i = 0
    argi = 0
    while i < len(t):
        b = t[i]
        if b == 0:
            break
        if b < 0x80:
            n = b
            i += 1
            out.extend(bytes(t[i:i + n]).decode("utf-8"))
            i += n
        elif b == 0x80:
            n = t[i + 1] | (t[i + 2] << 8)
            i += 3
            out.extend(bytes(t[i:i + n]).decode("utf-8"))
            i += n
        elif b >= 0xC0:
            flags = b & 0x3F
            i += 1
            if flags & 0b0111:
                raise Unsupported("format! placeholder with flags/width/precision")
            if flags & 0b1000:
                argi = t[i] | (t[i + 1] << 8)
                i += 2
            out.append(("arg", argi))
            argi += 1
        else:
            raise Unsupported("format template byte %x" % b)
    res = []
    for x in out:
        if isinstance(x, tuple):
            res.extend(fmt_value(m, d["args"][x[1]]))
        else:
            res.append(ord(x))
    return res


@summary(r"std::fmt::format")
def s_fmt_format(m, st, info, args):
    return StrBuf(render_fmt(m, args[0]))


# ---------------------------------------------------------------------------
# bytes of strings: `as_bytes()` yields a BytesRef (a &[u8] that still knows
# its code points); writing it into a Vec<u8> keeps ("ch", c) items so that
# String::from_utf8 gives the code points back. Anything that looks at the
# individual bytes materialises them (forking on UTF-8 length classes).


def utf8_bytes(m, c):
    if isinstance(c, int):
        return list(chr(c).encode("utf-8"))
    if m.decide(z3.ULT(c, 0x80), "utf8-1"):
        return [simp(z3.Extract(7, 0, c))]
    if m.decide(z3.ULT(c, 0x800), "utf8-2"):
        return [simp(z3.Extract(7, 0, 0xC0 | z3.LShR(c, 6))), simp(z3.Extract(7, 0, 0x80 | (c & 0x3F)))]
    if m.decide(z3.ULT(c, 0x10000), "utf8-3"):
        return [simp(z3.Extract(7, 0, 0xE0 | z3.LShR(c, 12))), simp(z3.Extract(7, 0, 0x80 | (z3.LShR(c, 6) & 0x3F))),
                simp(z3.Extract(7, 0, 0x80 | (c & 0x3F)))]
    return [simp(z3.Extract(7, 0, 0xF0 | z3.LShR(c, 18))), simp(z3.Extract(7, 0, 0x80 | (z3.LShR(c, 12) & 0x3F))),
            simp(z3.Extract(7, 0, 0x80 | (z3.LShR(c, 6) & 0x3F))), simp(z3.Extract(7, 0, 0x80 | (c & 0x3F)))]


@summary(r"core::str::<impl str>::as_bytes", r"std::string::String::as_bytes")
def s_as_bytes(m, st, info, args):
    return BytesRef(as_str(m, args[0]))


def byte_items(m, v):
    """items for a Vec<u8> from a &[u8]-like value"""
    if isinstance(v, BytesRef):
        return [("ch", c) for c in v.chars]
    return list(slice_items(m, v))


@summary(r"<std::vec::Vec<u8, A> as std::io::Write>::write_all", r"std::io::impls::<impl std::io::Write for std::vec::Vec<u8, A>>::write_all",
         r"std::io::impls::<impl std::io::Write for &mut W>::write_all")
def s_vec_write_all(m, st, info, args):
    tgt = deref(m, args[0])
    if isinstance(tgt, Ptr):
        tgt = deref(m, tgt)
    if not isinstance(tgt, VecVal):
        raise Unsupported("io::Write::write_all into %r" % (tgt,))
    tgt.items.extend(byte_items(m, args[1]))
    tid = ret_ty(m, info)
    return mk_ok(m, tid, unit())


@summary(r"std::string::String::from_utf8")
def s_from_utf8(m, st, info, args):
    v = args[0]
    if not isinstance(v, VecVal):
        raise Unsupported("String::from_utf8 of %r" % (v,))
    chars = []
    for x in v.items:
        if isinstance(x, tuple) and x[0] == "ch":
            chars.append(x[1])
        elif isinstance(x, int) and x < 0x80:
            chars.append(x)
        else:
            raise Unsupported("String::from_utf8 over raw non-ASCII / symbolic bytes")
    return mk_ok(m, ret_ty(m, info), StrBuf(chars))


def _ascii_case(c, upper):
    lo, hi, d = (ord("a"), ord("z"), -32) if upper else (ord("A"), ord("Z"), 32)
    if is_sym(c):
        return simp(z3.If(z3.And(z3.UGE(c, lo), z3.ULE(c, hi)), c + z3.BitVecVal(d & 0xFFFFFFFF, c.size()), c))
    return c + d if lo <= c <= hi else c


@summary(r"core::str::<impl str>::to_ascii_uppercase", r"std::str::<impl str>::to_ascii_uppercase",
         r"alloc::str::<impl str>::to_ascii_uppercase")
def s_str_to_ascii_uppercase(m, st, info, args):
    return StrBuf([_ascii_case(c, True) for c in as_str(m, args[0])])


@summary(r"core::str::<impl str>::to_ascii_lowercase", r"std::str::<impl str>::to_ascii_lowercase",
         r"alloc::str::<impl str>::to_ascii_lowercase")
def s_str_to_ascii_lowercase(m, st, info, args):
    return StrBuf([_ascii_case(c, False) for c in as_str(m, args[0])])


@summary(r"core::str::<impl str>::repeat", r"std::str::<impl str>::repeat")
def s_str_repeat(m, st, info, args):
    n = m.index_value(args[1])
    return StrBuf(list(as_str(m, args[0])) * n)


@summary(r"<.* as std::string::SpecToString>::spec_to_string")
def s_spec_to_string(m, st, info, args):
    try:
        return StrBuf(as_str(m, args[0]))
    except Unsupported:
        v = deref(m, args[0])
        if isinstance(v, int) and not isinstance(v, bool):
            f = m.p.fns[info["fn"]]
            t = m.p.types[f["arg_tys"][0]]
            while t["k"] == "ref":
                t = m.p.types[t["to"]]
            if t["k"] == "char":
                return StrBuf([v])
            if t["k"] == "int":
                if t["s"] and v >> (t["w"] - 1):
                    v -= 1 << t["w"]
                return StrBuf([ord(c) for c in str(v)])
        if is_sym(v) and v.size() == 32:
            return StrBuf([v])
        return NotImplemented


@summary(r"std::str::from_utf8", r"core::str::from_utf8", r"core::str::converts::from_utf8")
def s_str_from_utf8(m, st, info, args):
    tid = ret_ty(m, info)
    v = args[0]
    if isinstance(v, Ptr) and v.meta is not None and v.meta[0] == "slice":
        cont = m.read_loc(Loc(v.cell, v.path))
        if isinstance(cont, VecVal) and type(cont) is not ByteArr:
            items = cont.items[v.meta[1]:v.meta[1] + v.meta[2]]
            if any(not isinstance(x, tuple) for x in items):
                return _from_utf8_items(m, st, tid, items)
    return mk_ok(m, tid, m.bytes_to_str(v))


def _from_utf8_items(m, st, tid, items):
    """validate raw bytes (concrete, or symbolic and ASCII on the path): Ok(&str) or Err(Utf8Error)"""
    out = []
    raw = []
    pos = 0  # byte offset of the start of `raw`

    def flush():
        # returns None or (valid_up_to, error_len | None)
        if not raw:
            return None
        try:
            out.extend(ord(ch) for ch in bytes(raw).decode("utf-8"))
        except UnicodeDecodeError as e:
            elen = None if e.reason == "unexpected end of data" else (e.end - e.start)
            return (pos + e.start, elen)
        return None

    err = None
    off = 0
    for x in items:
        if isinstance(x, tuple) and x[0] == "ch":
            c = x[1]
            if isinstance(c, int):
                raw.extend(chr(c).encode("utf-8"))
                off += len(chr(c).encode("utf-8"))
                continue
            raise Unsupported("from_utf8 over symbolic code-point items mixed with raw bytes")
        if isinstance(x, int):
            if not raw:
                pos = off
            raw.append(x)
            off += 1
            continue
        xb = bv(x, 8)
        if m.feasible(st, z3.UGE(xb, z3.BitVecVal(0x80, 8))):
            raise Unsupported("from_utf8 over possibly non-ASCII symbolic bytes (not modelled)")
        err = flush()
        if err is not None:
            if err[1] is None:
                # an incomplete sequence followed by an ASCII byte: invalid, length = what was there
                err = (err[0], len(raw) - (err[0] - pos))
            break
        del raw[:]
        out.append(simp(z3.ZeroExt(24, xb)))
        off += 1
    if err is None:
        err = flush()
    if err is None:
        return mk_ok(m, tid, StrRef(out))
    ev = variant_index(m, tid, "Err")
    ety = field_ty(m, tid, ev, 0)
    et = m.p.types[ety]
    fields = et["variants"][0]["fields"]
    vals = []
    for f in fields:
        if f["name"] == "valid_up_to":
            vals.append(err[0])
        else:
            oty = f["ty"]
            vals.append(mk_none(m, oty) if err[1] is None else mk_some(m, oty, err[1]))
    return mk_err(m, tid, Agg(ety, 0, vals))


@summary(r"std::str::from_utf8_unchecked", r"core::str::from_utf8_unchecked", r"core::str::converts::from_utf8_unchecked")
def s_str_from_utf8_unchecked(m, st, info, args):
    return m.bytes_to_str(args[0])


def elem_ptr_items(m, p, n):
    """n consecutive items starting at element pointer p"""
    if type(p) is BytesRef:
        sp = m.materialize_bytes(p.chars)
        p = Ptr(sp.cell, sp.path + (0,))
    p = m.unwrap_ptr(p)
    if not isinstance(p, Ptr) or not p.path:
        raise Unsupported("element pointer expected, got %r" % (p,))
    cont = m.read_loc(Loc(p.cell, p.path[:-1]))
    if not isinstance(cont, VecVal):
        raise Unsupported("element pointer into %r" % (cont,))
    i = p.path[-1]
    if i + n > len(cont.items):
        raise Unsupported("out-of-bounds raw read")
    return cont.items[i:i + n]


def i_compare_bytes(m, st, info, args):
    n = m.index_value(args[2])
    a = elem_ptr_items(m, args[0], n)
    b = elem_ptr_items(m, args[1], n)
    r = 0
    for x, y in reversed(list(zip(a, b))):
        if isinstance(x, tuple) or isinstance(y, tuple):
            raise Unsupported("compare_bytes over code-point items")
        if isinstance(x, int) and isinstance(y, int):
            if x != y:
                r = 0xFFFFFFFF if x < y else 1
        else:
            xb, yb = bv(x, 8), bv(y, 8)
            r = simp(z3.If(xb == yb, bv(r, 32), z3.If(z3.ULT(xb, yb), z3.BitVecVal(0xFFFFFFFF, 32), z3.BitVecVal(1, 32))))
    return r


INTRINSICS["compare_bytes"] = i_compare_bytes


@summary(r"<std::str::Chars<'a> as std::iter::Iterator>::nth")
def s_chars_nth(m, st, info, args):
    it = deref(m, args[0])
    n = m.index_value(args[1])
    tid = ret_ty(m, info)
    d = it.d
    if d["i"] + n >= d["j"]:
        d["i"] = d["j"]
        return mk_none(m, tid)
    d["i"] += n
    c = d["s"][d["i"]]
    d["i"] += 1
    return mk_some(m, tid, c)


@summary(r"<std::str::Chars<'a> as std::iter::Iterator>::advance_by")
def s_chars_advance_by(m, st, info, args):
    it = deref(m, args[0])
    n = m.index_value(args[1])
    tid = ret_ty(m, info)
    d = it.d
    avail = d["j"] - d["i"]
    k = min(n, avail)
    d["i"] += k
    if k == n:
        return mk_ok(m, tid, unit())
    err = variant_index(m, tid, "Err")
    return Agg(tid, err, [m.wrap_newtype(field_ty(m, tid, err, 0), n - k)])


@summary(r"<std::str::Chars<'a> as std::iter::Iterator>::last")
def s_chars_last(m, st, info, args):
    d = args[0].d
    tid = ret_ty(m, info)
    if d["i"] >= d["j"]:
        return mk_none(m, tid)
    return mk_some(m, tid, d["s"][d["j"] - 1])


def formatter_buf(m, f):
    """the String a fmt::Formatter writes into"""
    fa = deref(m, f)
    if not isinstance(fa, Agg):
        raise Unsupported("Formatter %r" % (fa,))
    for x in fa.f:
        if isinstance(x, Ptr):
            tgt = m.read_loc(Loc(x.cell, x.path))
            if isinstance(tgt, StrBuf):
                return tgt
    raise Unsupported("Formatter without String sink")


@summary(r"std::fmt::Formatter::<'a>::write_fmt")
def s_formatter_write_fmt(m, st, info, args):
    buf = formatter_buf(m, args[0])
    buf.chars.extend(render_fmt(m, args[1]))
    return mk_ok(m, ret_ty(m, info), unit())


@summary(r"std::fmt::Formatter::<'a>::write_str", r"std::fmt::Formatter::<'a>::pad",
         r"<std::fmt::Formatter<'_> as std::fmt::Write>::write_str")
def s_formatter_write_str(m, st, info, args):
    buf = formatter_buf(m, args[0])
    buf.chars.extend(as_str(m, args[1]))
    return mk_ok(m, ret_ty(m, info), unit())


@summary(r"<str as std::fmt::Display>::fmt", r"<std::string::String as std::fmt::Display>::fmt")
def s_str_display(m, st, info, args):
    buf = formatter_buf(m, args[1])
    buf.chars.extend(as_str(m, args[0]))
    return mk_ok(m, ret_ty(m, info), unit())


@summary(r"<std::string::String as std::fmt::Write>::write_str")
def s_string_write_str(m, st, info, args):
    strbuf_of(m, args[0]).chars.extend(as_str(m, args[1]))
    return mk_ok(m, ret_ty(m, info), unit())


@summary(r"<std::string::String as std::fmt::Write>::write_char")
def s_string_write_char(m, st, info, args):
    strbuf_of(m, args[0]).chars.append(args[1])
    return mk_ok(m, ret_ty(m, info), unit())


def slice_view(m, p):
    """(container VecVal, start, len) of a slice pointer"""
    if type(p) is BytesRef:
        p = m.materialize_bytes(p.chars)
    p = m.unwrap_ptr(p) if isinstance(p, Agg) else p
    if not isinstance(p, Ptr):
        raise Unsupported("slice pointer expected: %r" % (p,))
    cont = m.read_loc(Loc(p.cell, p.path))
    if not isinstance(cont, VecVal):
        raise Unsupported("slice over %r" % (cont,))
    if p.meta is not None and p.meta[0] == "slice":
        return cont, p.meta[1], p.meta[2]
    return cont, 0, len(cont.items)


@summary(r"core::slice::<impl \[T\]>::reverse")
def s_slice_reverse(m, st, info, args):
    cont, a, n = slice_view(m, args[0])
    cont.items[a:a + n] = cont.items[a:a + n][::-1]
    return unit()


@summary(r"core::slice::<impl \[T\]>::swap")
def s_slice_swap(m, st, info, args):
    cont, a, n = slice_view(m, args[0])
    i, j = m.index_value(args[1]), m.index_value(args[2])
    if i >= n or j >= n:
        raise PathEnd("panic", "slice::swap index out of bounds")
    cont.items[a + i], cont.items[a + j] = cont.items[a + j], cont.items[a + i]
    return unit()


@summary(r"std::hint::select_unpredictable", r"core::hint::select_unpredictable")
def s_select_unpredictable(m, st, info, args):
    """select_unpredictable(cond, a, b) = if cond { a } else { b } (its body goes through MaybeUninit / raw copies)"""
    c = args[0]
    if is_sym(c) or isinstance(c, z3.BoolRef):
        return args[1] if m.decide(c if isinstance(c, z3.BoolRef) else (c != 0), "select-unpredictable") else args[2]
    return args[1] if c else args[2]


@summary(r"std::mem::swap", r"core::mem::swap")
def s_mem_swap(m, st, info, args):
    pa, pb = m.unwrap_ptr(args[0]), m.unwrap_ptr(args[1])
    la, lb = Loc(pa.cell, pa.path), Loc(pb.cell, pb.path)
    va, vb = m.read_loc(la), m.read_loc(lb)
    m.write_loc(la, vb)
    m.write_loc(lb, va)
    return unit()


@summary(r"std::mem::replace", r"core::mem::replace")
def s_mem_replace(m, st, info, args):
    pa = m.unwrap_ptr(args[0])
    la = Loc(pa.cell, pa.path)
    old = m.read_loc(la)
    m.write_loc(la, args[1])
    return old


@summary(r"std::ptr::drop_in_place", r"core::ptr::drop_in_place", r"std::mem::drop", r"core::mem::drop", r"std::mem::forget")
def s_drop(m, st, info, args):
    return unit()


# --- VecDeque as a VecVal ---------------------------------------------------------


@summary(r"std::collections::VecDeque::<T>::new", r"std::collections::VecDeque::<T>::with_capacity",
         r"<std::collections::VecDeque<T> as std::default::Default>::default")
def s_vd_new(m, st, info, args):
    return VecVal()


@summary(r"std::collections::VecDeque::<T, A>::push_back")
def s_vd_push_back(m, st, info, args):
    vec_of(m, args[0]).items.append(args[1])
    return unit()


@summary(r"std::collections::VecDeque::<T, A>::push_front")
def s_vd_push_front(m, st, info, args):
    vec_of(m, args[0]).items.insert(0, args[1])
    return unit()


@summary(r"std::collections::VecDeque::<T, A>::pop_front")
def s_vd_pop_front(m, st, info, args):
    v = vec_of(m, args[0])
    tid = ret_ty(m, info)
    if not v.items:
        return mk_none(m, tid)
    return mk_some(m, tid, v.items.pop(0))


@summary(r"std::collections::VecDeque::<T, A>::pop_back")
def s_vd_pop_back(m, st, info, args):
    v = vec_of(m, args[0])
    tid = ret_ty(m, info)
    if not v.items:
        return mk_none(m, tid)
    return mk_some(m, tid, v.items.pop())


@summary(r"std::collections::VecDeque::<T, A>::len")
def s_vd_len(m, st, info, args):
    return len(vec_of(m, args[0]).items)


@summary(r"std::collections::VecDeque::<T, A>::is_empty")
def s_vd_is_empty(m, st, info, args):
    return len(vec_of(m, args[0]).items) == 0


@summary(r"<std::boxed::Box<T, A> as std::ops::Drop>::drop", r"<std::vec::Vec<T, A> as std::ops::Drop>::drop",
         r"<std::vec::IntoIter<T, A> as std::ops::Drop>::drop", r"<std::rc::Rc<T, A> as std::ops::Drop>::drop",
         r"<alloc::raw_vec::RawVec<T, A> as std::ops::Drop>::drop")
def s_drop_impl(m, st, info, args):
    return unit()


@summary(r"std::array::iter::<impl std::iter::IntoIterator for \[T; N\]>::into_iter")
def s_array_into_iter(m, st, info, args):
    v = args[0]
    if not isinstance(v, VecVal):
        raise Unsupported("array into_iter on %r" % (v,))
    return Obj("arr_iter", items=list(v.items), i=0)


@summary(r"<std::array::IntoIter<T, N> as std::iter::Iterator>::next")
def s_array_iter_next(m, st, info, args):
    it = deref(m, args[0])
    tid = ret_ty(m, info)
    d = it.d
    if d["i"] >= len(d["items"]):
        return mk_none(m, tid)
    x = d["items"][d["i"]]
    d["i"] += 1
    return mk_some(m, tid, x)


@summary(r"<std::array::IntoIter<T, N> as std::iter::Iterator>::size_hint", r"<std::array::IntoIter<T, N> as std::iter::ExactSizeIterator>::len")
def s_array_iter_len(m, st, info, args):
    d = deref(m, args[0]).d
    n = len(d["items"]) - d["i"]
    if info["def"].endswith("::len"):
        return n
    tid = ret_ty(m, info)
    opt = m.p.types[tid]["tys"][1]
    return Agg(tid, 0, [n, mk_some(m, opt, n)])


@summary(r"core::str::<impl str>::get", r"core::str::<impl str>::is_char_boundary")
def s_str_get_or_boundary(m, st, info, args):
    s = as_str(m, args[0])
    if info["def"].endswith("is_char_boundary"):
        off = args[1]
        pos = 0
        if isinstance(off, int):
            for c in s:
                if isinstance(pos, int) and pos == off:
                    return True
                l = m.utf8_len(c)
                if isinstance(l, int) and isinstance(pos, int):
                    pos += l
                else:
                    pos = simp(bv(pos, 64) + bv(l, 64))
                    if m.decide(bv(pos, 64) == off, "boundary"):
                        return True
            if isinstance(pos, int):
                return pos == off
            return m.decide(bv(pos, 64) == off, "boundary-end")
        # symbolic offset: true iff it equals one of the (possibly symbolic) prefix lengths
        conds = []
        for c in s:
            conds.append(simp(bv(pos, 64) == bv(off, 64)))
            pos = simp(bv(pos, 64) + bv(m.utf8_len(c), 64))
        conds.append(simp(bv(pos, 64) == bv(off, 64)))
        return b_or(*conds)
    r = args[1]
    tid = ret_ty(m, info)
    tn = m.p.types.get(r.ty, {}).get("name", "") if isinstance(r, Agg) else ""
    if not tn.endswith("Range") or tn.endswith("RangeInclusive"):
        raise Unsupported("str::get with " + tn)
    try:
        lo = char_index_of_byte(m, s, r.f[0], "str.get")
        hi = char_index_of_byte(m, s, r.f[1], "str.get")
    except PathEnd as e:
        if e.kind == "panic":
            return mk_none(m, tid)
        raise
    if lo > hi:
        return mk_none(m, tid)
    return mk_some(m, tid, StrRef(s[lo:hi]))


def _trim(m, s, pat, left, right):
    """generic trim by a char predicate pattern (char or whitespace)"""
    def matches(c):
        if pat == "ws":
            return s_is_whitespace(m, None, None, [c])
        if isinstance(pat, VecVal):
            return b_or(*[v_eq(c, x) for x in pat.items])
        return v_eq(c, pat)
    lo, hi = 0, len(s)
    if left:
        while lo < hi and m.decide(matches(s[lo]), "trim-left"):
            lo += 1
    if right:
        while hi > lo and m.decide(matches(s[hi - 1]), "trim-right"):
            hi -= 1
    return StrRef(s[lo:hi])


@summary(r"core::str::<impl str>::trim_matches", r"core::str::<impl str>::trim_start_matches", r"core::str::<impl str>::trim_end_matches")
def s_trim_matches(m, st, info, args):
    pat = args[1]
    if isinstance(pat, Ptr):
        pat = deref(m, pat)
    if not (isinstance(pat, int) or is_sym(pat) or isinstance(pat, VecVal)):
        raise Unsupported("trim_matches with non-char pattern")
    d = info["def"]
    return _trim(m, as_str(m, args[0]), pat, "end" not in d, "start" not in d)


@summary(r"core::str::<impl str>::trim", r"core::str::<impl str>::trim_start", r"core::str::<impl str>::trim_end")
def s_trim(m, st, info, args):
    d = info["def"]
    return _trim(m, as_str(m, args[0]), "ws", not d.endswith("trim_end"), not d.endswith("trim_start"))


@summary(r"<std::collections::HashMap<K, V, S, A> as std::clone::Clone>::clone",
         r"<std::collections::HashSet<T, S, A> as std::clone::Clone>::clone")
def s_map_clone(m, st, info, args):
    mp = map_of(m, args[0])
    return MapVal([[copy_value(k), copy_value(v)] for k, v in mp.entries])


# ---------------------------------------------------------------------------
# encoding_rs (foreign table-driven / SIMD code): value-level stub, ASCII only.
# `Encoding::decode` of a byte string whose every byte is < 0x80 on the path
# (decided by the solver) is the identity for every ASCII-compatible encoding
# (UTF-8, windows-125x, ISO-8859-x, ... - all that `for_label` can return except
# UTF-16LE/BE, ISO-2022-JP and "replacement"); no BOM can occur in ASCII.
# Anything else is Unsupported (-> inconclusive, never a verdict).

_ASCII_INCOMPATIBLE = ("UTF-16LE", "UTF-16BE", "ISO-2022-JP", "replacement")
_CP1252_HI = [0x20AC, 0x81, 0x201A, 0x0192, 0x201E, 0x2026, 0x2020, 0x2021, 0x02C6, 0x2030, 0x0160, 0x2039, 0x0152, 0x8D, 0x017D, 0x8F,
              0x90, 0x2018, 0x2019, 0x201C, 0x201D, 0x2022, 0x2013, 0x2014, 0x02DC, 0x2122, 0x0161, 0x203A, 0x0153, 0x9D, 0x017E, 0x0178]


def _cp1252(x):
    if isinstance(x, int):
        return _CP1252_HI[x - 0x80] if 0x80 <= x < 0xA0 else x
    xb = bv(x, 8)
    wide = z3.ZeroExt(24, xb)
    t = wide
    for i, cp in enumerate(_CP1252_HI):
        t = z3.If(xb == z3.BitVecVal(0x80 + i, 8), z3.BitVecVal(cp, 32), t)
    return simp(t)


@summary(r"encoding_rs::Encoding::decode")
def s_encoding_rs_decode(m, st, info, args):
    """value-level model of `Encoding::decode` (BOM sniffing + decode_without_bom_handling): UTF-8 (concrete bytes
    any, symbolic bytes ASCII; ill-formed parts -> U+FFFD), windows-1252 (any byte, the WHATWG index), every other
    ASCII-compatible encoding on ASCII bytes only."""
    enc = deref(m, args[0])
    name = None
    if isinstance(enc, Agg) and enc.f:
        try:
            name = const_str(as_str(m, enc.f[0]))
        except Unsupported:
            name = None
    if name is None or name in _ASCII_INCOMPATIBLE:
        raise Unsupported("encoding_rs decode for encoding %r (only ASCII-compatible encodings are modelled)" % (name,))
    cont, a, n = slice_view(m, args[1])
    items = []
    for x in cont.items[a:a + n]:
        if isinstance(x, tuple) and x[0] == "ch":
            if not isinstance(x[1], int) or x[1] >= 0x80:
                raise Unsupported("encoding_rs decode over code-point items")
            x = x[1]
        items.append(x)
    # BOM sniffing: decided on the first three bytes
    had_bom = False
    head = items[:3]
    if any(not isinstance(x, int) for x in head):
        for x in head:
            if not isinstance(x, int) and m.feasible(st, z3.UGE(bv(x, 8), z3.BitVecVal(0x80, 8))):
                raise Unsupported("encoding_rs decode: symbolic bytes where a BOM could be (not modelled)")
    else:
        if head[:3] == [0xEF, 0xBB, 0xBF]:
            name, items, had_bom = "UTF-8", items[3:], True
        elif head[:2] in ([0xFF, 0xFE], [0xFE, 0xFF]):
            raise Unsupported("encoding_rs decode: UTF-16 BOM (not modelled)")
    if name == "UTF-8":
        chars = _bytes_to_chars_lossy(m, st, items, "encoding_rs UTF-8 decode")
    elif name == "windows-1252":
        chars = [_cp1252(x) for x in items]
    else:
        chars = []
        for x in items:
            if isinstance(x, int):
                if x >= 0x80:
                    raise Unsupported("encoding_rs decode of non-ASCII bytes in %s (not modelled)" % name)
                chars.append(x)
            else:
                xb = bv(x, 8)
                if m.feasible(st, z3.UGE(xb, z3.BitVecVal(0x80, 8))):
                    raise Unsupported("encoding_rs decode of possibly non-ASCII symbolic bytes in %s (not modelled)" % name)
                chars.append(simp(z3.ZeroExt(24, xb)))
    rt = ret_ty(m, info)
    cow_t = m.p.types[rt]["tys"][0]
    cow = Agg(cow_t, variant_index(m, cow_t, "Owned"), [StrBuf(chars)])
    had_errors = any(isinstance(c, int) and c == 0xFFFD for c in chars) and name == "UTF-8"
    enc_ptr = args[0]
    if had_bom:
        # the second tuple field is the encoding actually used; xot ignores it
        enc_ptr = args[0]
    return Agg(rt, 0, [cow, enc_ptr, had_errors])


@summary(r"std::str::<impl str>::replace", r"alloc::str::<impl str>::replace")
def s_str_replace(m, st, info, args):
    """str::replace(pattern: &str | char, to: &str): leftmost non-overlapping matches, decided per position."""
    s = list(as_str(m, args[0]))
    pat = args[1]
    if isinstance(pat, (StrRef, StrBuf, Ptr)):
        p = list(as_str(m, pat))
    elif isinstance(pat, int) or is_sym(pat):
        p = [pat]
    else:
        raise Unsupported("str::replace with pattern %r" % (pat,))
    to = list(as_str(m, args[2]))
    if not p:
        raise Unsupported("str::replace with an empty pattern")
    out = []
    i = 0
    while i < len(s):
        if i + len(p) <= len(s) and m.decide(chars_eq(s[i:i + len(p)], p), "replace-match"):
            out.extend(to)
            i += len(p)
        else:
            out.append(s[i])
            i += 1
    return StrBuf(out)


def _bytes_to_chars_lossy(m, st, items, what):
    """UTF-8 bytes -> code points, U+FFFD for ill-formed parts (maximal-subpart rule, which Rust's Utf8Chunks and
    Python's 'replace' handler both follow). Symbolic bytes must be ASCII on the path."""
    out = []
    raw = []

    def flush():
        if raw:
            out.extend(ord(ch) for ch in bytes(raw).decode("utf-8", errors="replace"))
            del raw[:]

    for x in items:
        if isinstance(x, tuple) and x[0] == "ch":
            c = x[1]
            if isinstance(c, int):
                raw.extend(chr(c).encode("utf-8"))
            else:
                flush()
                out.append(c)
        elif isinstance(x, int):
            raw.append(x)
        else:
            xb = bv(x, 8)
            if m.feasible(st, z3.UGE(xb, z3.BitVecVal(0x80, 8))):
                raise Unsupported("%s over possibly non-ASCII symbolic bytes (not modelled)" % what)
            flush()
            out.append(simp(z3.ZeroExt(24, xb)))
    flush()
    return out


@summary(r"std::string::String::from_utf8_lossy")
def s_from_utf8_lossy(m, st, info, args):
    cont, a, n = slice_view(m, args[0])
    chars = _bytes_to_chars_lossy(m, st, cont.items[a:a + n], "String::from_utf8_lossy")
    rt = ret_ty(m, info)
    return Agg(rt, variant_index(m, rt, "Owned"), [StrBuf(chars)])


@summary(r"core::str::<impl str>::find::<&str>")
def s_str_find_str(m, st, info, args):
    s = list(as_str(m, args[0]))
    p = list(as_str(m, args[1]))
    tid = ret_ty(m, info)
    if not p:
        return mk_some(m, tid, 0)
    for i in range(0, len(s) - len(p) + 1):
        if m.decide(chars_eq(s[i:i + len(p)], p), "find-match"):
            return mk_some(m, tid, m.str_byte_len(s[:i]))
    return mk_none(m, tid)


@summary(r"(std|alloc)::str::<impl str>::to_lowercase")
def s_str_to_lowercase(m, st, info, args):
    """str::to_lowercase, ASCII only (non-ASCII chars need the Unicode tables: not modelled)"""
    out = []
    for c in as_str(m, args[0]):
        if isinstance(c, int):
            if c >= 0x80:
                lc = ord(chr(c).lower()) if len(chr(c).lower()) == 1 else None
                if lc is None or c == 0x3A3:
                    raise Unsupported("str::to_lowercase over a char with a special mapping")
                out.append(lc)
                continue
        elif m.feasible(st, z3.UGE(c, 0x80)):
            raise Unsupported("str::to_lowercase over a possibly non-ASCII symbolic char (not modelled)")
        out.append(_ascii_case(c, False))
    return StrBuf(out)
