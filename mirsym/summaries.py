"""Value-level summaries for std (and the `xh::sym` intrinsics).

Everything here is *trusted base*: each summary replaces a std function whose
real body works on raw memory (String/Vec buffers, UTF-8 bytes, hash tables)
with its documented value-level meaning.  They are validated on every run by
concrete differential execution against the natively compiled code
(see validate.py).  xot / indextree code is never summarised.
"""
import re

import z3

from .core import (Agg, Cell, FnVal, ForkRequest, Loc, MapVal, Obj, PathEnd, Ptr, StrBuf, StrRef, TailCall,
                   Unsupported, VecVal, b_and, b_not, b_or, bv, copy_value, is_sym, mask, simp, v_eq, zbool)

REG = []  # (compiled regex on def-or-name, fn, label)


def summary(*pats):
    def deco(fn):
        for p in pats:
            REG.append((re.compile(p), fn, p))
        return fn

    return deco


class Summaries:
    def __init__(self):
        self.used = set()

    def lookup(self, info, fn):
        d = info.get("def") or ""
        n = info.get("name") or ""
        for rx, f, label in REG:
            if rx.fullmatch(d) or rx.fullmatch(n):
                return f
        if info.get("kind") == "intrinsic" or (fn is not None and fn.get("kind") == "intrinsic"):
            iname = info.get("intrinsic") or (fn or {}).get("intrinsic")
            f = INTRINSICS.get(iname)
            if f is not None:
                return f
            if fn is not None and fn.get("body") is not None:
                return None  # fallback body
            return lambda m, st, i, a, _n=iname: unsupported("intrinsic " + str(_n))
        return None


def unsupported(msg):
    raise Unsupported(msg)


# ---------------------------------------------------------------------------
# helpers


def ret_ty(m, info):
    return m.p.fns[info["fn"]]["ret_ty"]


def variant_index(m, tid, name):
    t = m.p.types[tid]
    for i, v in enumerate(t["variants"]):
        if v["name"] == name:
            return i
    raise Unsupported("no variant %s in %s" % (name, t.get("s_")))


def mk_some(m, tid, v):
    return Agg(tid, variant_index(m, tid, "Some"), [v])


def mk_none(m, tid):
    return Agg(tid, variant_index(m, tid, "None"), [])


def mk_ok(m, tid, v):
    return Agg(tid, variant_index(m, tid, "Ok"), [v])


def mk_err(m, tid, v):
    return Agg(tid, variant_index(m, tid, "Err"), [v])


def field_ty(m, tid, var, idx):
    return m.p.types[tid]["variants"][var]["fields"][idx]["ty"]


def unit():
    return Agg(None, 0, [])


def deref(m, p):
    """read the value a pointer designates"""
    if isinstance(p, StrRef):
        return p
    p = m.unwrap_ptr(p)
    if not isinstance(p, Ptr):
        raise Unsupported("summary deref of %r" % (p,))
    return m.read_loc(Loc(p.cell, p.path))


def as_str(m, v):
    """&str | &String | String | &&str ... -> tuple of chars"""
    for _ in range(4):
        if isinstance(v, StrRef):
            return v.chars
        if isinstance(v, StrBuf):
            return tuple(v.chars)
        if isinstance(v, Ptr) or isinstance(v, Agg):
            if isinstance(v, Agg) and m.p.types.get(v.ty, {}).get("name") == "std::borrow::Cow":
                v = v.f[0]
                continue
            v = deref(m, v)
            continue
        break
    raise Unsupported("expected a string, got %r" % (v,))


def strbuf_of(m, p):
    v = deref(m, p)
    if not isinstance(v, StrBuf):
        raise Unsupported("expected String, got %r" % (v,))
    return v


def const_str(chars):
    out = []
    for c in chars:
        if not isinstance(c, int):
            return None
        out.append(chr(c))
    return "".join(out)


def chars_eq(a, b):
    if len(a) != len(b):
        return False
    conds = []
    for x, y in zip(a, b):
        e = v_eq(x, y, 32)
        if e is False:
            return False
        conds.append(e)
    return b_and(*conds)


# ---------------------------------------------------------------------------
# xh::sym intrinsics


def _name_arg(a):
    s = const_str(a.chars) if isinstance(a, StrRef) else None
    if s is None:
        raise Unsupported("sym:: name must be a literal")
    return s


@summary(r"xh::sym::any_u64", r"xh::sym::any_usize")
def s_any64(m, st, info, args):
    return m.fresh(_name_arg(args[0]), 64)


@summary(r"xh::sym::any_u32")
def s_any32(m, st, info, args):
    return m.fresh(_name_arg(args[0]), 32)


@summary(r"xh::sym::any_u16")
def s_any16(m, st, info, args):
    return m.fresh(_name_arg(args[0]), 16)


@summary(r"xh::sym::any_u8")
def s_any8(m, st, info, args):
    return m.fresh(_name_arg(args[0]), 8)


@summary(r"xh::sym::any_bool")
def s_anybool(m, st, info, args):
    return m.fresh(_name_arg(args[0]), 1, is_bool=True)


def fresh_char(m, st, name):
    c = m.fresh(name, 32)
    if is_sym(c):
        valid = z3.And(z3.ULT(c, 0x110000), z3.Or(z3.ULT(c, 0xD800), z3.UGT(c, 0xDFFF)))
        key = "valid:" + name
        valid = m.symvars_constraints.setdefault(key, valid)
        # char validity is a typing invariant, part of every path that uses it
        if not any(x is valid for x in st.pc):
            st.pc.append(valid)
    else:
        if c >= 0x110000 or 0xD800 <= c <= 0xDFFF:
            c = 0xFFFD
    return c


@summary(r"xh::sym::any_char")
def s_anychar(m, st, info, args):
    return fresh_char(m, st, _name_arg(args[0]))


@summary(r"xh::sym::any_string")
def s_anystring(m, st, info, args):
    name = _name_arg(args[0])
    n = args[1]
    if not isinstance(n, int):
        n = m.concretize(n, 64, what="string length")
    return StrBuf([fresh_char(m, st, "%s.%d" % (name, i)) for i in range(n)])


@summary(r"xh::sym::choose")
def s_choose(m, st, info, args):
    name = _name_arg(args[0])
    n = args[1]
    if not isinstance(n, int):
        raise Unsupported("choose bound must be concrete")
    if n <= 1:
        return 0
    if m.model is not None:
        return int(m.model.get(name, 0)) % n
    v = m.fresh(name, 64)
    if st.forced:
        r = st.forced.pop(0)
        st.dlog.append(r)
        return r
    only = m.choose_filter.get(name)
    alts = []
    for i in range(n):
        if only is not None and i not in only:
            continue
        c = simp(v == i)
        if m.feasible(st, c):
            alts.append((c, i))
    if not alts:
        raise PathEnd("infeasible")
    raise ForkRequest(alts)


@summary(r"xh::sym::param")
def s_param(m, st, info, args):
    name = _name_arg(args[0])
    if name in m.params:
        return int(m.params[name])
    if m.model is not None and ("param." + name) in m.model:
        return int(m.model["param." + name])
    if not isinstance(args[1], int):
        raise Unsupported("param default must be concrete")
    m.params_used[name] = args[1]
    return args[1]


@summary(r"xh::sym::assume")
def s_assume(m, st, info, args):
    c = args[0]
    if c is True:
        return unit()
    if c is False:
        raise PathEnd("assume-false")
    if not m.feasible(st, c):
        raise PathEnd("assume-false")
    st.pc.append(zbool(c))
    return unit()


@summary(r"xh::sym::check")
def s_check(m, st, info, args):
    label = _name_arg(args[0])
    m.do_check(st, label, args[1])
    return unit()


@summary(r"xh::sym::cover")
def s_cover(m, st, info, args):
    st.cover.append(_name_arg(args[0]))
    return unit()


@summary(r"xh::sym::class")
def s_class(m, st, info, args):
    label = _name_arg(args[0])
    c = args[1]
    prev = st.classes.get(label)
    st.classes[label] = c if prev is None else b_or(prev, c)
    return unit()


@summary(r"xh::sym::emit_str")
def s_emit_str(m, st, info, args):
    label = _name_arg(args[0])
    chars = as_str(m, args[1])
    st.emits.append((label, "s", tuple(chars)))
    return unit()


@summary(r"xh::sym::emit_u64")
def s_emit_u64(m, st, info, args):
    st.emits.append((_name_arg(args[0]), "u", args[1]))
    return unit()


# ---------------------------------------------------------------------------
# panics


@summary(r"core::panicking::panic(_fmt|_nounwind|_nounwind_fmt|_explicit|_str|_display|_cannot_unwind|_in_cleanup|_misaligned_pointer_dereference|_null_pointer_dereference)?(::<.*>)?",
         r"std::rt::panic_fmt", r"std::rt::begin_panic(::<.*>)?", r"std::panicking::begin_panic(::<.*>)?",
         r"core::panicking::panic_bounds_check", r"core::panicking::assert_failed(::<.*>)?",
         r"core::panicking::assert_failed_inner", r"core::panicking::unreachable_display(::<.*>)?",
         r"core::option::unwrap_failed", r"core::option::expect_failed", r"core::result::unwrap_failed",
         r"core::slice::index::slice_index_fail", r"core::slice::index::slice_(start|end)_index_len_fail",
         r"core::slice::index::slice_index_order_fail", r"core::str::slice_error_fail",
         r"std::alloc::handle_alloc_error", r"alloc::raw_vec::handle_error", r"alloc::raw_vec::capacity_overflow",
         r"std::cell::panic_already_borrowed", r"std::cell::panic_already_mutably_borrowed",
         r"core::num::from_ascii_radix_panic", r"std::process::abort", r"std::panic::panic_any(::<.*>)?",
         r"core::panicking::panic_const::.*", r"std::thread::local::panic_access_error",
         r"core::str::traits::str_index_overflow_fail", r"core::cell::panic_already_.*",
         r"core::char::methods::encode_utf8_raw::do_panic.*", r"std::char::encode_utf8_raw::do_panic.*")
def s_panic(m, st, info, args):
    msg = info.get("name", "panic")
    for a in args:
        if isinstance(a, StrRef):
            s = const_str(a.chars)
            if s is not None:
                msg += ": " + s
                break
    raise PathEnd("panic", msg)


# ---------------------------------------------------------------------------
# String / str


@summary(r"std::string::String::new")
def s_string_new(m, st, info, args):
    return StrBuf()


@summary(r"std::string::String::with_capacity")
def s_string_with_capacity(m, st, info, args):
    return StrBuf()


@summary(r"std::string::String::push")
def s_string_push(m, st, info, args):
    strbuf_of(m, args[0]).chars.append(args[1])
    return unit()


@summary(r"std::string::String::push_str")
def s_string_push_str(m, st, info, args):
    chars = as_str(m, args[1])
    strbuf_of(m, args[0]).chars.extend(chars)
    return unit()


@summary(r"std::string::String::clear")
def s_string_clear(m, st, info, args):
    strbuf_of(m, args[0]).chars.clear()
    return unit()


@summary(r"<std::string::String as std::ops::Deref>::deref", r"std::string::String::as_str",
         r"std::str::<impl std::borrow::Borrow<str> for std::string::String>::borrow",
         r"<std::string::String as std::convert::AsRef<str>>::as_ref",
         r"<std::string::String as std::ops::DerefMut>::deref_mut",
         r"std::string::String::as_mut_str",
         r"<str as std::convert::AsRef<str>>::as_ref")
def s_string_as_str(m, st, info, args):
    return StrRef(as_str(m, args[0]))


@summary(r"std::str::<impl std::borrow::ToOwned for str>::to_owned", r"<std::string::String as std::clone::Clone>::clone",
         r"<std::string::String as std::convert::From<&str>>::from",
         r"<std::string::String as std::convert::From<&mut str>>::from",
         r"<std::string::String as std::convert::From<&std::string::String>>::from",
         r"<str as std::string::ToString>::to_string", r"<str as std::string::SpecToString>::spec_to_string",
         r"<std::string::String as std::string::ToString>::to_string",
         r"<std::string::String as std::string::SpecToString>::spec_to_string",
         r"std::string::String::from_str", r"<std::string::String as std::str::FromStr>::from_str_",
         r"<std::boxed::Box<str> as std::convert::From<&str>>::from_")
def s_str_to_owned(m, st, info, args):
    return StrBuf(as_str(m, args[0]))


@summary(r"<std::string::String as std::cmp::PartialEq>::eq", r"<std::string::String as std::cmp::PartialEq<str>>::eq",
         r"<std::string::String as std::cmp::PartialEq<&str>>::eq", r"<str as std::cmp::PartialEq<std::string::String>>::eq",
         r"<&str as std::cmp::PartialEq<std::string::String>>::eq",
         r"core::str::traits::<impl std::cmp::PartialEq for str>::eq")
def s_str_eq(m, st, info, args):
    return chars_eq(as_str(m, args[0]), as_str(m, args[1]))


@summary(r"<std::string::String as std::cmp::PartialEq>::ne", r"core::str::traits::<impl std::cmp::PartialEq for str>::ne")
def s_str_ne(m, st, info, args):
    return b_not(chars_eq(as_str(m, args[0]), as_str(m, args[1])))


@summary(r"core::str::<impl str>::len", r"std::string::String::len")
def s_str_len(m, st, info, args):
    return m.str_byte_len(as_str(m, args[0]))


@summary(r"core::str::<impl str>::is_empty", r"std::string::String::is_empty")
def s_str_is_empty(m, st, info, args):
    return len(as_str(m, args[0])) == 0


@summary(r"core::str::<impl str>::chars")
def s_chars(m, st, info, args):
    s = as_str(m, args[0])
    return Obj("chars", s=s, i=0, j=len(s))


@summary(r"<std::str::Chars<'a> as std::iter::Iterator>::next")
def s_chars_next(m, st, info, args):
    it = deref(m, args[0])
    tid = ret_ty(m, info)
    d = it.d
    if d["i"] >= d["j"]:
        return mk_none(m, tid)
    c = d["s"][d["i"]]
    d["i"] += 1
    return mk_some(m, tid, c)


@summary(r"<std::str::Chars<'a> as std::iter::DoubleEndedIterator>::next_back")
def s_chars_next_back(m, st, info, args):
    it = deref(m, args[0])
    tid = ret_ty(m, info)
    d = it.d
    if d["i"] >= d["j"]:
        return mk_none(m, tid)
    d["j"] -= 1
    return mk_some(m, tid, d["s"][d["j"]])


@summary(r"<std::str::Chars<'a> as std::iter::Iterator>::count")
def s_chars_count(m, st, info, args):
    d = args[0].d
    return d["j"] - d["i"]


@summary(r"std::str::Chars::<'a>::as_str")
def s_chars_as_str(m, st, info, args):
    d = deref(m, args[0]).d
    return StrRef(d["s"][d["i"]:d["j"]])


@summary(r"core::str::<impl str>::char_indices")
def s_char_indices(m, st, info, args):
    s = as_str(m, args[0])
    return Obj("char_indices", s=s, i=0, off=0)


@summary(r"<std::str::CharIndices<'a> as std::iter::Iterator>::next")
def s_char_indices_next(m, st, info, args):
    it = deref(m, args[0])
    tid = ret_ty(m, info)
    d = it.d
    if d["i"] >= len(d["s"]):
        return mk_none(m, tid)
    c = d["s"][d["i"]]
    off = d["off"]
    d["i"] += 1
    l = m.utf8_len(c)
    if isinstance(off, int) and isinstance(l, int):
        d["off"] = off + l
    else:
        d["off"] = simp(bv(off, 64) + bv(l, 64))
    some = variant_index(m, tid, "Some")
    pair_ty = field_ty(m, tid, some, 0)
    return Agg(tid, some, [Agg(pair_ty, 0, [off, c])])


def char_index_of_byte(m, chars, off, what):
    """byte offset -> char index; panics (PathEnd) when not on a boundary."""
    if isinstance(off, int):
        pos = 0
        for i, c in enumerate(chars):
            if isinstance(pos, int) and pos == off:
                return i
            l = m.utf8_len(c)
            if isinstance(l, int) and isinstance(pos, int):
                pos += l
                if pos > off:
                    raise PathEnd("panic", "byte index %d is not a char boundary (%s)" % (off, what))
            else:
                # symbolic lengths: decide boundary by asking the solver
                posn = simp(bv(pos, 64) + bv(l, 64))
                if m.decide(z3.UGT(bv(posn, 64), off), what + ":pastoff"):
                    raise PathEnd("panic", "byte index %d is not a char boundary (%s)" % (off, what))
                pos = posn
                if m.decide(bv(pos, 64) == off, what + ":at"):
                    return i + 1
        if isinstance(pos, int):
            if pos == off:
                return len(chars)
            raise PathEnd("panic", "byte index %d out of range (%s)" % (off, what))
        if m.decide(bv(pos, 64) == off, what + ":end"):
            return len(chars)
        raise PathEnd("panic", "byte index %d out of range (%s)" % (off, what))
    # symbolic offset: find the char index whose prefix length equals it
    pos = 0
    for i in range(len(chars) + 1):
        if m.decide(bv(pos, 64) == off, what + ":symoff"):
            return i
        if i < len(chars):
            l = m.utf8_len(chars[i])
            pos = simp(bv(pos, 64) + bv(l, 64))
    raise PathEnd("panic", "symbolic byte index not on a char boundary (%s)" % what)


@summary(r"core::str::traits::<impl std::ops::Index<I> for str>::index",
         r"<std::string::String as std::ops::Index<I>>::index")
def s_str_index(m, st, info, args):
    s = as_str(m, args[0])
    r = args[1]
    tn = m.p.types.get(r.ty, {}).get("name", "") if isinstance(r, Agg) else ""
    lo, hi = 0, len(s)
    if tn.endswith("RangeFrom"):
        lo = char_index_of_byte(m, s, r.f[0], "str[a..]")
    elif tn.endswith("RangeTo"):
        hi = char_index_of_byte(m, s, r.f[0], "str[..b]")
    elif tn.endswith("RangeFull"):
        pass
    elif tn.endswith("RangeInclusive") or tn.endswith("RangeToInclusive"):
        raise Unsupported("inclusive str range")
    elif tn.endswith("Range"):
        lo = char_index_of_byte(m, s, r.f[0], "str[a..b]")
        hi = char_index_of_byte(m, s, r.f[1], "str[a..b]")
        if lo > hi:
            raise PathEnd("panic", "str slice start > end")
    else:
        raise Unsupported("str index by " + tn)
    return StrRef(s[lo:hi])


@summary(r"core::str::<impl str>::get")
def s_str_get(m, st, info, args):
    raise Unsupported("str::get")


@summary(r"core::str::<impl str>::strip_prefix")
def s_strip_prefix(m, st, info, args):
    s = as_str(m, args[0])
    pat = args[1]
    tid = ret_ty(m, info)
    if isinstance(pat, (StrRef, StrBuf, Ptr)):
        p = as_str(m, pat)
        if len(p) > len(s):
            return mk_none(m, tid)
        if m.decide(chars_eq(s[: len(p)], p), "strip_prefix"):
            return mk_some(m, tid, StrRef(s[len(p):]))
        return mk_none(m, tid)
    # char pattern
    if not s:
        return mk_none(m, tid)
    if m.decide(v_eq(s[0], pat), "strip_prefix-char"):
        return mk_some(m, tid, StrRef(s[1:]))
    return mk_none(m, tid)


@summary(r"core::str::<impl str>::strip_suffix")
def s_strip_suffix(m, st, info, args):
    s = as_str(m, args[0])
    pat = args[1]
    tid = ret_ty(m, info)
    if isinstance(pat, (StrRef, StrBuf, Ptr)):
        p = as_str(m, pat)
        if len(p) > len(s):
            return mk_none(m, tid)
        if m.decide(chars_eq(s[len(s) - len(p):], p), "strip_suffix"):
            return mk_some(m, tid, StrRef(s[: len(s) - len(p)]))
        return mk_none(m, tid)
    if not s:
        return mk_none(m, tid)
    if m.decide(v_eq(s[-1], pat), "strip_suffix-char"):
        return mk_some(m, tid, StrRef(s[:-1]))
    return mk_none(m, tid)


@summary(r"core::str::<impl str>::starts_with")
def s_starts_with(m, st, info, args):
    s = as_str(m, args[0])
    pat = args[1]
    if isinstance(pat, (StrRef, StrBuf, Ptr)):
        p = as_str(m, pat)
        if len(p) > len(s):
            return False
        return chars_eq(s[: len(p)], p)
    if not s:
        return False
    return v_eq(s[0], pat)


@summary(r"core::str::<impl str>::ends_with")
def s_ends_with(m, st, info, args):
    s = as_str(m, args[0])
    pat = args[1]
    if isinstance(pat, (StrRef, StrBuf, Ptr)):
        p = as_str(m, pat)
        if len(p) > len(s):
            return False
        return chars_eq(s[len(s) - len(p):], p)
    if not s:
        return False
    return v_eq(s[-1], pat)


@summary(r"core::str::<impl str>::contains")
def s_contains(m, st, info, args):
    s = as_str(m, args[0])
    pat = args[1]
    if isinstance(pat, (StrRef, StrBuf, Ptr)):
        p = as_str(m, pat)
        if len(p) == 0:
            return True
        return b_or(*[chars_eq(s[i:i + len(p)], p) for i in range(0, len(s) - len(p) + 1)])
    if isinstance(pat, int) or is_sym(pat):
        return b_or(*[v_eq(c, pat) for c in s])
    raise Unsupported("str::contains with pattern %r" % (pat,))


def parse_uint(m, chars, radix, bits, tid, allow_minus=False):
    """value-level model of core::num::from_ascii_radix for unsigned types:
    optional leading '+', then one or more digits, overflow -> Err."""
    t = m.p.types[tid]
    err_ty = field_ty(m, tid, variant_index(m, tid, "Err"), 0)
    kind_ty = field_ty(m, err_ty, 0, 0)

    def err(kind):
        return mk_err(m, tid, Agg(err_ty, 0, [Agg(kind_ty, variant_index(m, kind_ty, kind), [])]))

    if not chars:
        return err("Empty")
    digits = list(chars)
    if m.decide(v_eq(digits[0], ord("+")), "parse-plus"):
        digits = digits[1:]
        if not digits:
            return err("InvalidDigit")
    elif m.decide(v_eq(digits[0], ord("-")), "parse-minus"):
        if len(digits) == 1:
            return err("InvalidDigit")
        # unsigned: the '-' is treated as an invalid digit below
    acc = 0
    W = 128
    for c in digits:
        if isinstance(c, int):
            dv = digit_value(c, radix)
            if dv is None:
                return err("InvalidDigit")
        else:
            c64 = c
            is_dec = z3.And(z3.UGE(c64, ord("0")), z3.ULE(c64, ord("0") + min(radix, 10) - 1))
            conds = [is_dec]
            if radix > 10:
                is_lo = z3.And(z3.UGE(c64, ord("a")), z3.ULE(c64, ord("a") + radix - 11))
                is_up = z3.And(z3.UGE(c64, ord("A")), z3.ULE(c64, ord("A") + radix - 11))
                conds += [is_lo, is_up]
            if not m.decide(z3.Or(*conds), "parse-digit"):
                return err("InvalidDigit")
            cw = z3.ZeroExt(W - 32, c64)
            dv = cw - ord("0")
            if radix > 10:
                dv = z3.If(is_dec, cw - ord("0"), z3.If(is_lo, cw - ord("a") + 10, cw - ord("A") + 10))
        acc = simp(bv(acc, W) * radix + bv(dv, W)) if (is_sym(acc) or is_sym(dv)) else acc * radix + dv
        lim = (1 << bits) - 1
        if isinstance(acc, int):
            if acc > lim:
                return err("PosOverflow")
        else:
            if m.decide(z3.UGT(acc, lim), "parse-overflow"):
                return err("PosOverflow")
    if isinstance(acc, int):
        return mk_ok(m, tid, acc)
    return mk_ok(m, tid, simp(z3.Extract(bits - 1, 0, acc)))


def digit_value(c, radix):
    if ord("0") <= c <= ord("9"):
        v = c - ord("0")
    elif ord("a") <= c <= ord("z"):
        v = c - ord("a") + 10
    elif ord("A") <= c <= ord("Z"):
        v = c - ord("A") + 10
    else:
        return None
    return v if v < radix else None


@summary(r"core::num::<impl std::str::FromStr for u32>::from_str")
def s_u32_from_str(m, st, info, args):
    return parse_uint(m, as_str(m, args[0]), 10, 32, ret_ty(m, info))


@summary(r"core::num::<impl u32>::from_str_radix")
def s_u32_from_str_radix(m, st, info, args):
    radix = args[1]
    if not isinstance(radix, int):
        raise Unsupported("symbolic radix")
    return parse_uint(m, as_str(m, args[0]), radix, 32, ret_ty(m, info))


@summary(r"core::num::<impl std::str::FromStr for usize>::from_str", r"core::num::<impl std::str::FromStr for u64>::from_str")
def s_u64_from_str(m, st, info, args):
    return parse_uint(m, as_str(m, args[0]), 10, 64, ret_ty(m, info))


# --- char classification -------------------------------------------------------

WHITE_SPACE = [(0x9, 0xD), (0x20, 0x20), (0x85, 0x85), (0xA0, 0xA0), (0x1680, 0x1680), (0x2000, 0x200A),
               (0x2028, 0x2029), (0x202F, 0x202F), (0x205F, 0x205F), (0x3000, 0x3000)]


@summary(r"std::char::methods::<impl char>::is_whitespace", r"core::char::methods::<impl char>::is_whitespace")
def s_is_whitespace(m, st, info, args):
    c = args[0]
    if isinstance(c, int):
        return any(lo <= c <= hi for lo, hi in WHITE_SPACE)
    return simp(z3.Or(*[z3.And(z3.UGE(c, lo), z3.ULE(c, hi)) if lo != hi else c == lo for lo, hi in WHITE_SPACE]))


@summary(r"core::unicode::unicode_data::white_space::lookup")
def s_ws_lookup(m, st, info, args):
    return s_is_whitespace(m, st, info, args)


# ---------------------------------------------------------------------------
# Box / alloc


def build_box(m, tid, ptr):
    """construct a value of (Box-like) type tid around pointer ptr, following
    the first non-ZST field chain down to the raw pointer field."""
    t = m.p.types[tid]
    if t["k"] in ("ptr", "ref"):
        return ptr
    if t["k"] != "adt":
        raise Unsupported("build_box on " + t.get("s_", "?"))
    fields = t["variants"][0]["fields"]
    out = []
    placed = False
    for f in fields:
        ft = m.p.types[f["ty"]]
        if ft.get("size") == 0 or placed:
            out.append(Agg(f["ty"], 0, []))
        else:
            out.append(build_box(m, f["ty"], ptr))
            placed = True
    return Agg(tid, 0, out)


@summary(r"std::boxed::Box::<T>::new")
def s_box_new(m, st, info, args):
    return build_box(m, ret_ty(m, info), Ptr(Cell(args[0]), ()))


# ---------------------------------------------------------------------------
# intrinsics


def i_nop(m, st, info, args):
    return unit()


def i_identity(m, st, info, args):
    return args[0]


def i_unreachable(m, st, info, args):
    raise PathEnd("unreachable", "intrinsics::unreachable")


def i_abort(m, st, info, args):
    raise PathEnd("panic", "abort")


def i_assume(m, st, info, args):
    if args[0] is False:
        raise PathEnd("infeasible")
    return unit()


INTRINSICS = {
    "cold_path": i_nop,
    "black_box": i_identity,
    "likely": i_identity,
    "unlikely": i_identity,
    "assume": i_assume,
    "unreachable": i_unreachable,
    "abort": i_abort,
    "assert_inhabited": i_nop,
    "assert_zero_valid": i_nop,
    "assert_mem_uninitialized_valid": i_nop,
}
