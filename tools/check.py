#!/usr/bin/env python3
"""/verif/check <PROPERTY> [--tier quick|thorough]

Decides one property by solver-based checking of the real code:
  1. (re)builds the `mirdump` rustc driver and dumps the monomorphic MIR of
     /repo's *current working tree* (through the harness crate /verif/harness),
  2. runs every harness of the property under `mirsym` (z3 decides every
     branch and every property query),
  3. replays every counterexample natively (dev + release build of the same
     harness) and validates sampled path witnesses natively (differential
     validation of interpreter + summaries),
  4. writes /verif/evidence/<ID>.json and prints VIOLATION / KNOWN-FINDING.

exit 0: held on everything explored (known findings printed);
exit 1: VIOLATION (unlisted, reproduced);  exit 2: inconclusive / tooling.
"""
import concurrent.futures as cf
import fcntl
import hashlib
import json
import os
import subprocess
import sys
import time

VERIF = os.path.dirname(os.path.dirname(os.path.abspath(__file__)))
WORK = os.path.join(VERIF, ".work")
REPO = os.environ.get("VERIF_REPO", "/repo")
PY = "python3-vt"
sys.path.insert(0, VERIF)
from tools.props import PROPS  # noqa: E402

ENV_BASE = dict(os.environ, CARGO_NET_OFFLINE="true")


def sh(cmd, env=None, cwd=None, timeout=None):
    return subprocess.run(cmd, shell=True, env=env or ENV_BASE, cwd=cwd, stdout=subprocess.PIPE,
                          stderr=subprocess.STDOUT, text=True, timeout=timeout)


def sysroot():
    return sh("rustc +nightly --print sysroot").stdout.strip().splitlines()[-1]


def build_mirdump():
    src = os.path.join(VERIF, "mirdump", "main.rs")
    out = os.path.join(WORK, "bin", "mirdump")
    os.makedirs(os.path.dirname(out), exist_ok=True)
    if os.path.exists(out) and os.path.getmtime(out) >= os.path.getmtime(src):
        return out
    r = sh("rustc +nightly --edition 2021 -O %s -o %s" % (src, out))
    if r.returncode != 0:
        print(r.stdout[-3000:])
        raise SystemExit(2)
    return out


def dump_mir():
    """dump MIR of all harness roots from /repo's current tree."""
    md = build_mirdump()
    out = os.path.join(WORK, "xh.mir.json")
    env = dict(ENV_BASE)
    sr = sysroot()
    env.update({
        "LD_LIBRARY_PATH": sr + "/lib",
        "RUSTUP_TOOLCHAIN": "nightly",
        "RUSTC": md,
        "MIRDUMP_CRATE": "xh",
        "MIRDUMP_OUT": out,
        "RUSTFLAGS": "--cfg faassen_xot_verif -C debug-assertions=off -C overflow-checks=on",
        "CARGO_TARGET_DIR": os.path.join(WORK, "mirtarget"),
    })
    # force the harness crate itself to be re-analysed (cheap) so the dump is
    # always regenerated from the current sources
    os.utime(os.path.join(VERIF, "harness", "src", "lib.rs"))
    sync_lock()
    r = sh("cargo build --offline --lib", env=env, cwd=os.path.join(VERIF, "harness"))
    if r.returncode != 0 or not os.path.exists(out):
        print(r.stdout[-6000:])
        print("INCONCLUSIVE: MIR dump failed (does /repo still compile?)")
        raise SystemExit(2)
    return out


def sync_lock():
    src = os.path.join(REPO, "Cargo.lock")
    dst = os.path.join(VERIF, "harness", "Cargo.lock")
    if os.path.exists(src):
        a = open(src).read()
        if not os.path.exists(dst) or open(dst).read() != a:
            # keep our package entry: cargo re-adds it
            open(dst, "w").write(a)


def build_replay(profile):
    env = dict(ENV_BASE)
    env.update({
        "RUSTFLAGS": "--cfg faassen_xot_verif",
        "CARGO_TARGET_DIR": os.path.join(WORK, "replaytarget"),
        "RUSTUP_TOOLCHAIN": "stable",
    })
    flag = "--release" if profile == "release" else ""
    r = sh("cargo build --offline --bin xh-replay %s" % flag, env=env, cwd=os.path.join(VERIF, "harness"))
    if r.returncode != 0:
        print(r.stdout[-6000:])
        print("INCONCLUSIVE: replay build failed")
        raise SystemExit(2)
    return os.path.join(WORK, "replaytarget", "release" if profile == "release" else "debug", "xh-replay")


def run_harness(job):
    mir, spec, tier, seed, outdir, known = job
    name = spec["name"]
    params = spec.get("params", {}).get(tier, {})
    shard = spec.get("_shard", "")
    tag = name + ("." + hashlib.md5(shard.encode()).hexdigest()[:6] if shard else "")
    out = os.path.join(outdir, tag + ".json")
    cmd = [PY, "-m", "mirsym.run", "--mir", mir, "--harness", name, "--out", out, "--seed", str(seed),
           "--budget-s", str(spec.get("budget_s", {}).get(tier, 900)), "--known", ",".join(known)]
    for k, v in params.items():
        cmd += ["--param", "%s=%s" % (k, v)]
    if shard:
        cmd += ["--shard", shard]
    if spec.get("_panic_ok"):
        cmd += ["--panic-ok"]
    if tier in spec.get("partial", ()):
        cmd += ["--partial-ok", "--random-order"]
    env = dict(ENV_BASE, PYTHONPATH=VERIF)
    t0 = time.time()
    try:
        p = subprocess.run(cmd, cwd=VERIF, env=env, stdout=subprocess.PIPE, stderr=subprocess.STDOUT, text=True,
                           timeout=spec.get("budget_s", {}).get(tier, 900) + 120)
        rc, log = p.returncode, p.stdout
    except subprocess.TimeoutExpired as e:
        rc, log = 3, "timeout\n" + (e.stdout or "")
    res = None
    if os.path.exists(out):
        try:
            res = json.load(open(out))
        except Exception:
            res = None
    if res is None:
        res = {"harness": name, "status": "inconclusive", "reason": "runner crashed: " + log[-2000:], "paths": 0,
               "findings": [], "witnesses": [], "checks": {}, "xot_fns": [], "summaries_used": []}
    res["_shard"] = shard
    res["_params"] = params
    res["_wall"] = time.time() - t0
    return res


def write_model(path, model, params):
    with open(path, "w") as f:
        for k, v in model.items():
            f.write("%s=%d\n" % (k, v))
        for k, v in params.items():
            f.write("param.%s=%d\n" % (k, v))


def native_replay(binary, harness, files, timeout=600):
    out = {}
    for i in range(0, len(files), 200):
        chunk = files[i:i + 200]
        try:
            p = subprocess.run([binary, harness] + chunk, stdout=subprocess.PIPE, stderr=subprocess.STDOUT, text=True,
                               timeout=timeout)
        except subprocess.TimeoutExpired:
            if len(chunk) == 1:
                out[chunk[0]] = {"harness": harness, "model": chunk[0], "failed": "hang", "panic": "none", "emits": ""}
                continue
            raise
        for line in p.stdout.splitlines():
            if line.startswith("REPLAY "):
                d = {}
                for part in line.split(" ")[1:]:
                    if "=" in part:
                        k, v = part.split("=", 1)
                        d[k] = v
                out[d.get("model")] = d
    return out


def load_known(pid):
    path = os.path.join(VERIF, "known_findings.json")
    if not os.path.exists(path):
        return []
    data = json.load(open(path))
    return [e for e in data.get("findings", []) if e.get("property") == pid and e.get("status") == "open"]


def replay_only(pid, path):
    """./check <ID> --replay <model>: run the counterexample natively against /repo's current tree (dev and release)"""
    base = os.path.basename(path)
    parts = base.split("-")
    harness = parts[1] if len(parts) > 2 else None
    names = [h["name"] for h in PROPS[pid]["harnesses"]]
    if harness not in names:
        print("cannot tell the harness from the file name %s (expected <ID>-<harness>-...)" % base)
        return 2
    os.makedirs(WORK, exist_ok=True)
    lock = open(os.path.join(WORK, "lock"), "w")
    fcntl.flock(lock, fcntl.LOCK_EX)
    try:
        bins = {"dev": build_replay("dev"), "release": build_replay("release")}
        bad = False
        for prof, b in bins.items():
            d = native_replay(b, harness, [os.path.abspath(path)], timeout=120).get(os.path.abspath(path), {})
            print("REPLAY profile=%s harness=%s failed=%s panic=%s" % (prof, harness, d.get("failed"), d.get("panic")))
            if d.get("failed", "none") not in ("none", "", "ASSUME") or d.get("panic", "none") != "none":
                bad = True
    finally:
        fcntl.flock(lock, fcntl.LOCK_UN)
    if bad:
        print("VIOLATION property=%s replay=%s" % (pid, path))
        return 1
    print("%s: the model does not fail on this tree" % pid)
    return 0


def main():
    args = sys.argv[1:]
    if not args:
        print(__doc__)
        return 2
    pid = args[0]
    tier = os.environ.get("VERIF_TIER", "quick")
    if "--tier" in args:
        tier = args[args.index("--tier") + 1]
    seed = int(os.environ.get("VERIF_SEED", "0") or 0)
    if pid not in PROPS:
        print("unknown property", pid)
        return 2
    prop = PROPS[pid]
    if "--replay" in args:
        return replay_only(pid, args[args.index("--replay") + 1])
    t0 = time.time()
    os.makedirs(WORK, exist_ok=True)
    lock = open(os.path.join(WORK, "lock"), "w")
    fcntl.flock(lock, fcntl.LOCK_EX)
    try:
        mir = dump_mir()
        mir_sha = hashlib.sha256(open(mir, "rb").read()).hexdigest()[:16]
        # private copy so that parallel checks of other properties cannot race
        mir_copy = os.path.join(WORK, "xh.mir.%s.%s.json" % (pid, tier))
        with open(mir, "rb") as a, open(mir_copy, "wb") as b:
            b.write(a.read())
        rb_dev = build_replay("dev")
        rb_rel = build_replay("release")
        # copy binaries for the same reason
        bins = {}
        for prof, pth in (("dev", rb_dev), ("release", rb_rel)):
            dst = os.path.join(WORK, "bin", "xh-replay.%s.%s.%s" % (pid, tier, prof))
            with open(pth, "rb") as a, open(dst, "wb") as b:
                b.write(a.read())
            os.chmod(dst, 0o755)
            bins[prof] = dst
    finally:
        fcntl.flock(lock, fcntl.LOCK_UN)
    t_build = time.time() - t0

    known_entries = load_known(pid)
    known = sorted(set(e["class"] for e in known_entries))
    outdir = os.path.join(WORK, "runs", "%s.%s" % (pid, tier))
    os.makedirs(outdir, exist_ok=True)
    import shutil
    shutil.rmtree(outdir, ignore_errors=True)
    os.makedirs(outdir, exist_ok=True)
    jobs = []
    for spec in prop["harnesses"]:
        if tier not in spec.get("tiers", ("quick", "thorough")):
            continue
        shards = spec.get("shards", {}).get(tier) or [""]
        for sh_ in shards:
            s2 = dict(spec, _shard=sh_, _panic_ok=spec["name"] in prop.get("panic_ok", []))
            jobs.append((mir_copy, s2, tier, seed, outdir, known))
    results = []
    with cf.ThreadPoolExecutor(max_workers=int(os.environ.get("VERIF_JOBS", "14"))) as ex:
        for r in ex.map(run_harness, jobs):
            results.append(r)

    # ---- aggregate ---------------------------------------------------------
    inconclusive = [r for r in results if r["status"] not in ("complete", "partial")]
    partial = [r for r in results if r["status"] == "partial"]
    replay_dir = os.path.join(VERIF, "evidence", "replays")
    os.makedirs(replay_dir, exist_ok=True)
    for f in os.listdir(replay_dir):
        if f.startswith(pid + "-"):
            os.unlink(os.path.join(replay_dir, f))
    scratch = os.path.join(outdir, "models")
    os.makedirs(scratch, exist_ok=True)
    violations = []
    known_seen = {}
    not_reproduced = []
    validated = 0
    mismatches = []
    for r in results:
        h = r["harness"]
        params = r.get("_params", {})
        params_all = dict(r.get("params", {}), **params)
        # counterexamples
        for i, f in enumerate(r.get("findings", [])):
            cls = f.get("class")
            stag = hashlib.md5(r["_shard"].encode()).hexdigest()[:4] if r["_shard"] else "0"
            fname = "%s-%s-%s-%s-%s.model" % (pid, h, f["label"].replace(":", "_").replace("/", "_"), cls or "NEW", stag)
            path = os.path.join(replay_dir, fname)
            write_model(path, f["model"], params_all)
            ok_all = True
            outs = {}
            for prof in ("dev", "release"):
                d = native_replay(bins[prof], h, [path], timeout=20 if f["label"] == "hang" else 300).get(path, {})
                outs[prof] = d
                failed = d.get("failed", "").split(",")
                if f["label"] == "panic":
                    ok = d.get("panic", "none") != "none"
                else:
                    ok = f["label"] in failed
                # a panic in dev that is a wrong answer in release still counts
                ok_all = ok_all and ok
            ok_any = any(((f["label"] == "panic" and o.get("panic", "none") != "none") or
                          (f["label"] in o.get("failed", "").split(","))) for o in outs.values())
            rec = {"harness": h, "label": f["label"], "class": cls, "replay": path, "native": outs,
                   "model": f["model"], "paths": f.get("count", 1), "panic_msg": f.get("panic_msg")}
            if not ok_any:
                not_reproduced.append(rec)
            elif cls is None:
                violations.append(rec)
            else:
                known_seen.setdefault(cls, []).append(rec)
        # differential validation of path witnesses
        ws = r.get("witnesses", [])
        files = []
        for i, w in enumerate(ws):
            pth = os.path.join(scratch, "%s.%s.w%d.model" % (h, hashlib.md5(r["_shard"].encode()).hexdigest()[:6], i))
            write_model(pth, w["model"], params_all)
            files.append(pth)
        if files:
            got = native_replay(bins["dev"], h, files)
            for pth, w in zip(files, ws):
                d = got.get(pth)
                if d is None:
                    mismatches.append({"harness": h, "why": "no native output", "model": w["model"]})
                    continue
                exp_emits = ";".join(w["emits"])
                nat_panic = d.get("panic", "none") != "none"
                if w["end"] == "panic":
                    ok = nat_panic
                else:
                    ok = (not nat_panic) and d.get("failed") == "none" and d.get("emits", "") == exp_emits
                if ok:
                    validated += 1
                else:
                    mismatches.append({"harness": h, "why": "native disagrees with symbolic path", "expected":
                                       {"end": w["end"], "emits": exp_emits}, "native": d, "model": w["model"]})

    # ---- evidence ------------------------------------------------------------
    paths = sum(r.get("paths", 0) for r in results)
    steps = sum(r.get("steps", 0) for r in results)
    queries = sum(r.get("queries", 0) for r in results)
    cqueries = sum(r.get("check_queries", 0) for r in results)
    solver_s = sum(r.get("solver_s", 0) for r in results)
    xot_fns = sorted(set(x for r in results for x in r.get("xot_fns", [])))
    summ = sorted(set(x for r in results for x in r.get("summaries_used", [])))
    checks = {}
    for r in results:
        for lab, c in r.get("checks", {}).items():
            d = checks.setdefault(r["harness"] + ":" + lab, {"evals": 0, "trivially_true": 0, "queries": 0,
                                                           "violating_paths": 0})
            for k in d:
                d[k] += c.get(k, 0)
    nontrivial = sum(max(0, c["evals"] - c["trivially_true"]) for c in checks.values())
    samples = []
    for r in results:
        for s in r.get("samples", [])[:2]:
            samples.append({"harness": r["harness"], "params": r.get("_params"), "path": s})
        for w in r.get("witnesses", [])[:1]:
            samples.append({"harness": r["harness"], "witness_model": w["model"], "end": w["end"]})
    samples = samples[:12]
    for v in (violations + [x for xs in known_seen.values() for x in xs])[:6]:
        samples.append({"counterexample": v["model"], "harness": v["harness"], "label": v["label"],
                        "class": v["class"]})
    status = "held"
    if inconclusive or not_reproduced or mismatches:
        status = "inconclusive"
    elif violations:
        status = "violated"
    ev = {
        "property_id": pid,
        "tier": tier,
        "seed": seed,
        "level": "model_checking",
        "coverage": {
            "states": max(paths, 1),
            "transitions": max(steps, 1),
            "traces_validated_against_impl": validated + len(violations) + sum(len(v) for v in known_seen.values()),
            "samples": samples or [{"note": "no paths"}],
            "evaluations": max(paths, 1),
            "distinct_nontrivial": nontrivial,
            "rule": "one evaluation = one feasible execution path of a harness through the MIR of the real code "
                    "(every branch on symbolic data decided by z3); paths are distinct by construction (different "
                    "branch decisions). distinct_nontrivial counts property assertions reached whose condition was "
                    "not syntactically true, i.e. needed a solver query over all values on that path.",
            "explanation": prop.get("claim", ""),
            "technique": "bounded symbolic execution of rustc MIR (mirdump+mirsym) with z3; counterexamples replayed natively",
            "status": status + ("-partial" if partial and status == "held" else ""),
            "partially_explored_shards": ["%s[%s]: %s" % (r["harness"], r["_shard"], r.get("reason", "")) for r in partial],
            "bounds": {r["harness"] + ("[" + r["_shard"] + "]" if r["_shard"] else ""): r.get("params", {}) for r in results},
            "bounds_text": prop.get("bounds", {}).get(tier, ""),
            "outside": prop.get("outside", ""),
            "functions_encoded": xot_fns,
            "mir_sha256_16": mir_sha,
            "paths": paths,
            "paths_by_end": merge_counts([r.get("paths_by_end", {}) for r in results]),
            "forks": sum(r.get("forks", 0) for r in results),
            "solver_queries": queries,
            "property_queries_discharged": cqueries,
            "solver_time_s": round(solver_s, 2),
            "checks": checks,
            "trusted_base": summ,
            "harness_results": [{"harness": r["harness"], "shard": r["_shard"], "status": r["status"],
                                 "reason": r.get("reason", ""), "paths": r.get("paths"), "wall_s": round(r["_wall"], 1),
                                 "covers": r.get("covers", {})}
                                for r in results],
            "known_findings_seen": {k: len(v) for k, v in known_seen.items()},
            "known_findings_listed": known,
            "witness_mismatches": mismatches[:5],
            "build_s": round(t_build, 1),
        },
        "assumptions": prop.get("assumptions", []) + [
            "std summaries listed under coverage.trusted_base are correct value-level models (validated on this run "
            "against the native build on %d solver-generated path witnesses)" % validated,
            "rustc's MIR (dev profile: overflow checks on, debug assertions off) is the semantics of the source",
        ],
        "wall_s": round(time.time() - t0, 2),
        "violations": len(violations),
    }
    os.makedirs(os.path.join(VERIF, "evidence"), exist_ok=True)
    json.dump(ev, open(os.path.join(VERIF, "evidence", pid + ".json"), "w"), indent=1, default=str)

    # ---- verdict -------------------------------------------------------------
    for cls, recs in sorted(known_seen.items()):
        e = next((e for e in known_entries if e["class"] == cls), {})
        print("KNOWN-FINDING: property=%s %s [class %s; %d path(s); e.g. replay=%s]" % (
            pid, e.get("what", cls), cls, sum(r["paths"] for r in recs), recs[0]["replay"]))
    for r in partial:
        print("PARTIAL harness=%s shard=%s: %d paths decided, then %s" % (r["harness"], r.get("_shard", ""), r.get("paths", 0),
                                                                       r.get("reason", "")[:300]))
    for r in inconclusive:
        print("INCONCLUSIVE harness=%s shard=%s: %s" % (r["harness"], r.get("_shard", ""), r.get("reason", "")[:1500]))
    for r in not_reproduced:
        print("INCONCLUSIVE: counterexample for %s/%s (class %s) did not reproduce natively: %s" % (
            r["harness"], r["label"], r["class"], json.dumps(r["native"])[:600]))
    for mm in mismatches[:5]:
        print("INCONCLUSIVE: differential validation mismatch: %s" % json.dumps(mm)[:800])
    for v in violations:
        print("VIOLATION property=%s replay=%s" % (pid, v["replay"]))
        print("  harness=%s label=%s model=%s native=%s" % (v["harness"], v["label"], json.dumps(v["model"]),
                                                          json.dumps(v["native"])[:400]))
    print("%s: %s  paths=%d queries=%d property-queries=%d solver=%.1fs validated-witnesses=%d wall=%.1fs" % (
        pid, status.upper(), paths, queries, cqueries, solver_s, validated, time.time() - t0))
    if violations:
        return 1
    if status == "inconclusive":
        return 2
    return 0


def merge_counts(ds):
    out = {}
    for d in ds:
        for k, v in d.items():
            out[k] = out.get(k, 0) + v
    return out


if __name__ == "__main__":
    sys.exit(main())
