#!/bin/sh
# confirm_seed.sh <seed-dir>: in a scratch worktree of /repo HEAD: (1) demo passes without the patch,
# (2) with the patch: the existing suite passes and (3) the demo fails. Writes <seed-dir>/confirm.txt
d=$1
wt=/tmp/confirm.$$
git -C /repo worktree add -q --detach $wt HEAD || exit 2
export CARGO_TARGET_DIR=$wt/target CARGO_NET_OFFLINE=true
cp $d/demo.rs $wt/tests/zz_seed_demo.rs
cd $wt
r0=$(cargo test --offline --test zz_seed_demo 2>&1 | grep -E "^test result" | head -1)
git apply $d/patch.diff || { echo "patch does not apply" > $d/confirm.txt; cd /; git -C /repo worktree remove --force $wt; exit 3; }
r1=$(cargo test --offline --test zz_seed_demo 2>&1 | grep -E "^test result" | head -1)
rm tests/zz_seed_demo.rs
suite=$(cargo test --offline 2>&1 | grep -E "^test result" | awk '{p+=$4; f+=$6} END {print "passed=" p " failed=" f}')
cd /
git -C /repo worktree remove --force $wt
{
 echo "demo without patch: $r0"
 echo "demo with patch:    $r1"
 echo "existing suite with patch: $suite"
} > $d/confirm.txt
cat $d/confirm.txt
