#!/usr/bin/env python3
"""Regenerate /verif/known_findings.json (a committed, static file; checks only read it).
`FIXED` maps a substring of the fix commit's subject to the defect(s) it repaired; the
commit hash is looked up in /repo's history at generation time."""
import json, subprocess, sys

FIXED = [
 ("C04", "is_removed compares", "is_removed(handle) turned false again after the arena slot of a removed node had been reused by a newly created node (e.g. append(doc,b) merges t1,t2; new_comment reuses t2's slot)"),
 ("C04", "below itself or its descendants", "insert_after / insert_before / replace with an ancestor of the reference node as new sibling linked the ancestor below its own descendant: cyclic parent chain, traversals never terminate"),
 ("C06", "below itself or its descendants", "a refused cyclic append/prepend/any_append (child is parent or an ancestor of parent) had already merged the text nodes around the child's old position"),
 ("C04", "as reference of insert_after", "insert_after / insert_before with an attribute or namespace node as reference put a normal child among the attribute nodes (sibling links and the attribute / children views disagreed; adjacent text nodes)"),
 ("C06", "replace validates", "replace was not atomic: replace(x, document/attribute/namespace node) removed x and then failed (two text neighbours left adjacent); replace of a parentless node and replace(x, descendant of x) panicked"),
 ("C06", "already occupies", "append/prepend/insert_after/insert_before of a node onto the position it already occupies, or with itself as sibling reference: panic inside indextree ('Should never fail'), text node doubled then destroyed, or Err after neighbouring text had been merged"),
 ("C05", "already occupies", "append(parent, t) where text t is already the last child doubled t's text and then removed t (same for prepend / insert_* at the occupied position)"),
 ("C06", "after the move", "insert_after(ref, x) / insert_before(ref, x) where x sits between two text nodes one of which is ref: consolidation at x's old position removed ref, then ref was accessed: panic 'Try to access a freed node'"),
 ("C06", "replace handles a replacing node that is a direct sibling", "replace(x, previous-or-next sibling of x): refused after x had been destroyed, or left two adjacent text nodes"),
 ("C06", "element_wrap refuses", "element_wrap of an attribute or namespace node detached it from its element and then returned an error"),
 ("C01", "in attribute values as character references", "TAB / LF / CR in an attribute value were serialized raw and came back as spaces (attribute-value normalization)"),
 ("C01", "CR in text as a character reference", "CR in a text node was serialized raw and came back as LF (line-end normalization)"),
 ("C02", "xml:id normalization strips all", "xml:id values with two or more leading (or trailing) spaces kept all but one of them (xml_id_node did not find the normalised id)"),
 ("C03", "close tag without an open element in a fragment", "parse_fragment panicked ('Cannot close document node') on a close tag without an open element, e.g. parse_fragment(\"</a>\")"),
 ("C03", "may only contain digits", "character references with a sign after '#' or '#x' (&#+65; &#x+41;) were accepted"),
 ("C03", "outside the XML Char production", "character references to code points outside the XML Char production (&#0; &#1; &#xFFFE;) were accepted"),
 ("C03", "same expanded name on one element are rejected", "two attributes with different prefixes bound to the same namespace and the same local name (p:x / q:x) were accepted"),
 ("C03", "declared twice on one element is rejected", "the same prefix (or xmlns) declared twice on one element was accepted"),
 ("C18", "only treats XML whitespace", "text made of non-XML Unicode white space (U+00A0, U+0085, U+2003, U+2028 ...) was treated as insignificant whitespace and removed"),
 ("C12", "unresolved_namespaces reports the namespace of an attribute", "clone_with_prefixes of an element that binds a namespace only as default namespace while a descendant attribute is in that namespace: the inherited prefixed binding was not copied, the clone failed to serialise (MissingPrefix) although the source serialised in place"),
 ("C20", "xotify puts the trailing comments", "fixed::Document::xotify appended the `after` comments / processing instructions as children of the document element instead of as siblings after it"),
 ("C10", "generates prefixes that are not in use", "create_missing_prefixes named its prefixes n0, n1, ... from zero on every call: a second call (after a node in a new namespace had been added) or an existing user prefix n0 had its binding overridden by the newly generated n0; names that relied on it no longer resolved (to_string: MissingPrefix)"),
 ("C14", "adds no indentation inside the scope of xml:space", "with indentation enabled, elements nested inside an xml:space=\"preserve\" element that is itself at depth >= 1 were indented with spaces (whitespace-only text added inside the preserve scope)"),
 ("C07", "reverse_children walks", "reverse_children(n) never terminated for a node with two or more ordinary children (indextree Children::next_back never advances); it yields the last child for ever"),
 ("C09", "prefix_for_namespace skips shadowed", "prefix_for_namespace returned None as soon as it met a prefix that a nearer declaration shadows, although another prefix (or the built-in xml prefix) was bound to the namespace further up"),
 ("C09", "qualified name of an attribute node never uses the empty prefix", "node_name_ref / name_ref / full_name on an attribute node whose namespace is only bound as the default namespace reported the empty prefix (which for an attribute means no namespace)"),
 ("C11", "MutableNodeMap::is_empty returned", "MutableNodeMap::is_empty (attributes_mut / namespaces_mut views) was inverted: true for a non-empty map, false for an empty one"),
 ("C19", "recognise the real XHTML namespace URI", "the HTML5 serializer only knew https://www.w3.org/1999/xhtml as the XHTML namespace: elements in the real namespace http://www.w3.org/1999/xhtml were written prefixed (h:p), void elements got end tags, script / style text was escaped"),
 ("C19", "text node without an element parent", "html5().to_string of a fragment (text directly under a document node) or of a single text node panicked (Option::unwrap on None in Html5Serializer::render_output)"),
 ("C19", "ends with its element", "the xmlns declaration the HTML5 serializer adds for an SVG / MathML / XHTML element was recorded in the enclosing scope and never removed: a later sibling in that namespace (outside the svg element) was written unprefixed with no default-namespace declaration"),
 ("C06", "replace does not touch a previous sibling that was merged away", "replace(y, x) where x sits between two text nodes one of which is y's previous sibling and y has a next sibling (a<x/>b<y/><z/>): moving x merged b into a, then the freed b was accessed: panic 'Try to access a freed node' (left over from the earlier replace repair)"),
 ("C06", "create_missing_prefixes on a document node repairs every top-level element", "create_missing_prefixes(document) panicked (unwrap of NoElementAtTopLevel) on a document without element child, and repaired only the first top-level element of a fragment"),
 ("C09", "know that the xml prefix is always bound", "unresolved_namespaces reported the xml namespace for xml:lang / xml:space attributes although the xml prefix is always bound"),
 ("C10", "know that the xml prefix is always bound", "create_missing_prefixes on a tree with an xml:lang attribute bound a generated prefix n0 to the xml namespace; the serializer never writes a declaration for that namespace, so the output had n0:lang with n0 undeclared and did not re-parse"),
 ("C02", "local name xmlns (a:xmlns) is an ordinary attribute", "an attribute with a prefix and the local name xmlns (a:xmlns=\"v\") was taken for a default-namespace declaration: the attribute disappeared and unprefixed names changed namespace"),
 ("C02", "namespace names in xmlns declarations are decoded", "the value of a namespace declaration was registered raw: xmlns:p=\"a&amp;b\" gave the namespace name 'a&amp;b' (references not decoded, value not normalised)"),
 ("C01", "namespace names in xmlns declarations are decoded", "a namespace name containing & < or \" (registered through the API) was written raw into xmlns declarations: output not well-formed"),
 ("C05", "append of a text node that becomes the last child", "append(p, t) of a text node t that sits between two other text nodes (adjacent text nodes exist after consolidation was switched off and on again) and is followed by nothing else: the neighbours merged, t became the last child, was merged into itself and removed: its text was lost"),
 ("C13", "compare attribute and namespace nodes by value", "deep_equal / advanced_deep_equal of two attribute nodes or two namespace nodes returned true whatever their names and values (such nodes produce no traversal events)"),
 ("C03", "parse_bytes panicked on inputs shorter than four bytes", "parse_bytes panicked (Option::unwrap on None in encoding::decode) on every input shorter than four bytes, e.g. parse_bytes(b\"\"), and on an encoding label unknown to encoding_rs"),
 ("C04", "xml_id_node handed out a removed node", "xml_id_node(doc, id) returned the handle of a removed node after remove / element_unwrap / replace of the element that carried the xml:id (the table is filled at parse time)"),
 ("C10", "XML serialization of a text node without a parent panicked", "to_string / serialize_xml_string / tokens of a text node without a parent panicked (Option::unwrap on None in XmlSerializer::render_output)"),
 ("C02", "line ends inside CDATA sections were not normalized", "CR LF and lone CR inside a CDATA section were kept verbatim (<![CDATA[x\\r\\ny]]> gave \"x\\r\\ny\"), the same characters in plain text are normalised to LF"),
 ("C02", "an empty CDATA section on its own produced an empty text node", "<a><![CDATA[]]></a> parsed into an element with an empty text child (not deep-equal to <a/>, not round-trippable)"),
 ("C14", "CR in the text of a CDATA-section element was written raw", "text containing CR under a cdata_section_elements element was written as a raw CR inside the CDATA section and re-parsed as LF (visible once the parser normalised line ends inside CDATA sections)"),
 ("C13", "shallow_equal_ignore_attributes counts", "shallow_equal_ignore_attributes with a name repeated in the ignore list that b carries: the name was subtracted twice (usize underflow panic in dev, wrong answer in release)"),
]

_DEFNS = {"class": "KF-no-namespace-element-under-default-namespace", "status": "open",
  "what": "an element in no namespace is serialised unprefixed although a default namespace is bound in its scope (no xmlns=\"\" "
          "is emitted and no error is returned): the text re-parses with the element in the default namespace",
  "witness": "<p:r xmlns:p='urn:a'><e xmlns:q='urn:b' xmlns='urn:a' t='v'/><e/></p:r> built through the API with e in no namespace; "
             "to_string succeeds, parse puts the first e into urn:a",
  "call_site": "src/output/fullname.rs FullnameSerializer::element_prefix (no-namespace branch returns Ok(None) without looking at the default binding)",
  "why_not_fixed": "needs a design decision (emit xmlns=\"\" on the fly, or refuse with an error); either changes the output of trees that serialise today"}

def _kf(prop, cls, what, witness, site, why):
    return {"property": prop, "class": cls, "status": "open", "what": what, "witness": witness, "call_site": site, "why_not_fixed": why}


OPEN_PARSE = [
 _kf("C03", "KF-C03-close-tag-matched-by-expanded-name", "a close tag with another prefix bound to the same namespace closes the element",
     "<a xmlns:p='u' xmlns:q='u'><p:b></q:b></a>", "src/parse.rs DocumentBuilder::close_element (compares name ids)", "needs the prefix as written to be kept per open element; the tree built is the same either way"),
]

OPEN = OPEN_PARSE + [
 _kf("C08", "KF-C08-ids-are-16-bit", "name / namespace / prefix ids are 16 bits wide: the 65537th registration in a table gets the id of the first (to_id truncates with `as u16`), so two different strings share an id",
     "index = 65536: from_id(to_id(65536)) == 0; natively: registering 65537 distinct prefixes makes add_prefix return the id of the first",
     "src/id/name.rs, namespace.rs, prefix.rs IdIndex::to_id (`index as u16`)",
     "widening the ids changes the size of every Value and is a maintainer decision; a panic on overflow would not satisfy the property either"),
 dict(_DEFNS, property="C01"),
 dict(_DEFNS, property="C10"),
 dict(_DEFNS, property="C15"),
 _kf("C15", "KF-C15-own-default-and-prefixed-declaration-both-removed", "deduplicate_namespaces removes a prefixed declaration that an attribute needs when the same element also declares that namespace as its default namespace (the attribute marks the element's own tracker entry, which is popped before the safety check): the attribute loses its only usable prefix and the tree no longer serialises",
     "<r xmlns='urn:a'><g xmlns='urn:a' xmlns:q='urn:a' q:k='w'/></r> (or the default declaration anywhere between the prefixed declaration and the attribute); deduplicate_namespaces; to_string fails with MissingPrefix",
     "src/nameaccess.rs DeduplicateTracker::attribute_name / deduplicate_namespaces (End edge pops before is_safe_to_remove)",
     "a correct rule has to distinguish prefixed from default bindings per removal candidate: a rewrite of the tracker, not a mechanical repair"),
 _kf("C15", "KF-C15-declaration-removed-although-descendant-shadows-the-other-prefix", "deduplicate_namespaces removes a declaration for N because another prefix for N is in scope at that element, although a descendant re-declares that other prefix with a different namespace: names below the shadowing element lose their only binding and the tree no longer serialises",
     "<r xmlns:p='urn:a'><e xmlns='urn:a'><f xmlns:p='urn:b'/></e></r> with e, f in urn:a: xmlns on e is removed, f has no prefix left",
     "src/nameaccess.rs deduplicate_namespaces (is_namespace_known at the declaring element, shadowing below is not considered)",
     "needs a look-ahead over the subtree or a conservative rule (only identical prefix+namespace pairs are redundant) that changes documented results"),
 _kf("C15", "KF-C15-second-pass-after-default-declaration-removed", "deduplicate_namespaces is not idempotent: when the first pass removes a redundant default-namespace declaration, a prefixed declaration further down that was kept only because an attribute 'used' that default entry is removed by a second pass",
     "<e xmlns:p='urn:a'><f xmlns='urn:a'><g xmlns:q='urn:a' q:k='w'/></f></e>: pass 1 removes xmlns on f, pass 2 removes xmlns:q on g",
     "src/nameaccess.rs deduplicate_namespaces / DeduplicateTracker", "same rewrite as above; the result of the second pass is still correct, only the idempotence clause fails"),
 {"property": "C04", "class": "KF-C04-unwrap-parentless-element", "status": "open",
  "what": "element_unwrap of an element that has no parent but several children leaves the children as each other's siblings without a parent (parentless nodes with siblings)",
  "witness": "unattached <a x=..>t1<b/>t2<w/></a>; element_unwrap(a); next_sibling(t1) is Some while parent(t1) is None",
  "call_site": "src/manipulation.rs Xot::element_unwrap -> remove_element",
  "why_not_fixed": "no single obviously right behaviour (refuse? detach every child?): a maintainer decision, not a mechanical repair"},
]

sys.path.insert(0, "/verif")
try:
    from tools.findings_extra import FIXED as F2, OPEN as O2
    FIXED += F2
    OPEN += O2
except ImportError:
    pass

log = subprocess.run("git -C /repo log --format='%h %s'", shell=True, stdout=subprocess.PIPE, text=True).stdout.strip().split("\n")
fixed = []
for prop, key, what in FIXED:
    hits = [l.split()[0] for l in log if l.split(" ", 1)[1].startswith("fix:") and key in l]
    if len(hits) != 1:
        raise SystemExit("fix commit for %r: %r" % (key, hits))
    fixed.append("fixed: property=%s %s %s" % (prop, hits[0], what))
out = {"_format": "findings: status open = known, unrepaired defect of faassen/xot (suppressed by input class; printed as KNOWN-FINDING "
                  "while it still reproduces). fixed: informational, suppresses nothing. The file is never written at check time.",
       "findings": OPEN, "fixed": fixed}
json.dump(out, open("/verif/known_findings.json", "w"), indent=1)
print("known_findings.json: %d open, %d fixed" % (len(OPEN), len(fixed)))
