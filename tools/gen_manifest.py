#!/usr/bin/env python3
"""Regenerate /verif/MANIFEST.json from tools/props.py (single source of truth)."""
import json, os, sys
VERIF = os.path.dirname(os.path.dirname(os.path.abspath(__file__)))
sys.path.insert(0, VERIF)
from tools.props import PROPS, NOT_APPLICABLE

hooks_commits = []
try:
    import subprocess
    out = subprocess.run("git -C /repo log --format=%H --grep='^verif hooks'", shell=True, stdout=subprocess.PIPE, text=True).stdout
    hooks_commits = out.split()
except Exception:
    pass

checks = []
for pid in sorted(k for k in PROPS if k != 'DBG'):
    p = PROPS[pid]
    checks.append({
        "property_id": pid,
        "quick_cmd": "./check %s --tier quick" % pid,
        "thorough_cmd": "./check %s --tier thorough" % pid,
        "evidence_file": "/verif/evidence/%s.json" % pid,
        "replay_cmd_template": "./check %s --replay {path}" % pid,
        "engine": "mirsym",
        "level_claimed": {
            "category": "model_checking",
            "text": "Bounded symbolic execution of the real code: the monomorphic MIR rustc emits from /repo's current "
                    "tree is executed with symbolic inputs, z3 decides every branch and every property assertion for all "
                    "values inside the stated bounds, counterexamples are replayed natively (dev+release). "
                    + p.get("claim", "") + " Bounds: quick = " + p["bounds"]["quick"] + "; thorough = " + p["bounds"]["thorough"]
                    + ". Outside the claim: " + p.get("outside", ""),
            "design_ref": "DESIGN.md section 5, " + pid,
        },
        "level_note": "Trusted base: rustc's MIR as semantics of the source; value-level summaries of std String/str/Vec/"
                      "HashMap/iterator-over-raw-memory functions (listed per run in evidence coverage.trusted_base and "
                      "validated each run against the native build on solver-generated path witnesses); z3. "
                      + " ".join(p.get("assumptions", [])),
        "technique": "solver-based bounded symbolic execution of rustc MIR (mirdump + mirsym, z3), native replay of models",
    })

man = {
    "version": 1,
    "setup_cmd": "./tools/setup.sh",
    "hooks": {
        "guard": "--cfg faassen_xot_verif",
        "enable": "RUSTFLAGS=\"--cfg faassen_xot_verif\" (set by tools/check.py for the MIR dump and the replay build)",
        "baseline_off_cmd": "cd /repo && cargo test --workspace --no-fail-fast --offline",
        "source_commits": hooks_commits,
        "add_only": True,
    },
    "engines": [
        {"name": "mirdump", "path": "/verif/mirdump/main.rs", "serves_properties": sorted(k for k in PROPS if k != "DBG"),
         "kind_free_text": "rustc driver (rustc_public): dumps monomorphic MIR of everything reachable from the harness roots, regenerated from /repo on every run"},
        {"name": "mirsym", "path": "/verif/mirsym", "serves_properties": sorted(k for k in PROPS if k != "DBG"),
         "kind_free_text": "forking symbolic executor over that MIR; z3 decides branches and property queries; std containers summarised at value level"},
        {"name": "xh", "path": "/verif/harness", "serves_properties": sorted(k for k in PROPS if k != "DBG"),
         "kind_free_text": "harness crate: Rust harnesses + reference oracles; the same code is the native replay program"},
    ],
    "checks": checks,
    "not_applicable": [{"property_id": k, "reason": v} for k, v in sorted(NOT_APPLICABLE.items()) if k not in PROPS],
    "notes": "exit 0 held / 1 VIOLATION / 2 inconclusive (unsupported MIR construct, budget, replay or differential-validation mismatch). "
             "Known findings: /verif/known_findings.json.",
}
json.dump(man, open(os.path.join(VERIF, "MANIFEST.json"), "w"), indent=1)
print("MANIFEST.json: %d checks, %d not_applicable" % (len(checks), len(man["not_applicable"])))
