#!/bin/sh
# probe.sh <harness> [extra mirsym.run args]: dump MIR of /repo's tree and run one harness (debug aid; not a registered check)
cd /verif || exit 2
python3-vt - <<'PY' || exit 2
import sys
sys.path.insert(0, "/verif")
sys.argv = ["check"]
from tools import check
import os
os.makedirs(check.WORK, exist_ok=True)
print(check.dump_mir())
PY
h=$1; shift
PYTHONPATH=/verif python3-vt -m mirsym.run --mir /verif/.work/xh.mir.json --harness "$h" --out /tmp/probe.$h.json --budget-s 300 "$@"
