"""Per-property harness lists, bounds and claims (consumed by tools/check.py)."""

def H(name, quick=None, thorough=None, shards=None, budget=(600, 2400), tiers=("quick", "thorough")):
    return {"name": name, "params": {"quick": quick or {}, "thorough": thorough or quick or {}},
            "shards": shards or {}, "budget_s": {"quick": budget[0], "thorough": budget[1]}, "tiers": tiers}


def shard_choose(var, n):
    return ["%s=%d" % (var, i) for i in range(n)]


PROPS = {
    "C01": {
        "claim": "content clause of the round trip, decided at the escaping kernels of the real code",
        "harnesses": [
            H("h_c01_attr_roundtrip", {"N": 3}, {"N": 5}),
        ],
        "bounds": {"quick": "strings of 0..=3 XML Chars", "thorough": "strings of 0..=5 XML Chars"},
        "outside": "whole-tree to_string/parse pipeline (generator-driven serializer, xmlparser tokenizer)",
        "assumptions": [],
    },
}

PROPS["DBG"] = {
    "claim": "debug probes", "harnesses": [H("h_probe_tree"), H("h_probe_tostring"), H("h_probe_parse")],
    "bounds": {"quick": "-", "thorough": "-"}, "outside": "", "assumptions": [],
}

_WIP = "check not built yet (work in progress; will be claimed or given its final reason before the end)"
NOT_APPLICABLE = {("C%02d" % i): _WIP for i in range(1, 21)}
NOT_APPLICABLE["C16"] = ("every clause compares whole outputs of generator-driven (genawaiter coroutine) serialisation "
                         "entry points through io::Write/format!; no kernel-level residue the encoder reaches")
