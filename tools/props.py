"""Per-property harness lists, bounds and claims (consumed by tools/check.py)."""

def H(name, quick=None, thorough=None, shards=None, budget=(600, 2400), tiers=("quick", "thorough"), partial=()):
    """partial: tiers in which a shard may stop on its time budget: the explored paths are decided, the rest is
    reported as unexplored (PARTIAL line, evidence harness_results[].status = partial); exploration order then
    depends on VERIF_SEED"""
    return {"name": name, "params": {"quick": quick or {}, "thorough": thorough or quick or {}},
            "shards": shards or {}, "budget_s": {"quick": budget[0], "thorough": budget[1]}, "tiers": tiers,
            "partial": tuple(partial)}


def shard_choose(var, n):
    return ["%s=%d" % (var, i) for i in range(n)]


def shard_product(*dims):
    """dims: (var, n) pairs -> list of 'a=0;b=1' shard strings"""
    out = [""]
    for var, n in dims:
        out = [(o + ";" if o else "") + "%s=%d" % (var, i) for o in out for i in range(n)]
    return out


def CHARREF_SHARDS(n):
    """decimal: one shard per digit count; hex: also split by letter case and text / attribute"""
    return (["hex=0;digits=%d" % d for d in range(n)] +
            ["hex=1;digits=%d;upper=%d;where=%d" % (d, u, w) for d in range(n) for u in range(2) for w in range(2)])


PROPS = {
    "C01": {
        "claim": "serialise-then-parse through the public API (to_string, parse) returns the same tree: character data "
                 "(text, attribute values, comments, PIs) for all XML Chars, and expanded names / attributes / declarations "
                 "for all small namespace layouts; plus the escaping kernels alone at a larger length bound",
        "harnesses": [
            H("h_c01_attr_roundtrip", {"N": 3}, {"N": 5}),
            H("h_c01_text", {"N": 2}, {"N": 3}, shards={"quick": shard_choose("len", 2), "thorough": shard_choose("len", 3)}),
            H("h_c01_attr", {"N": 2}, {"N": 3}, shards={"quick": shard_choose("len", 3), "thorough": shard_choose("len", 4)}),
            H("h_c01_mixed", shards={"quick": shard_choose("shape", 4), "thorough": shard_choose("shape", 4)}),
            H("h_c01_ns", shards={"quick": shard_product(("c0", 8), ("ns0", 3)), "thorough": shard_product(("c0", 8), ("ns0", 3))}),
            H("h_c01_nsuri", {"N": 2}, {"N": 3}),
        ],
        "bounds": {"quick": "text and attribute values of <=2 symbolic XML Chars end to end (<=3 at the kernel), comment / PI / "
                            "text of 1 char in 4 mixed-content shapes, 2-level element trees over 8x8 declaration layouts x 3x3 "
                            "element namespaces x 2 attribute namespaces",
                   "thorough": "<=3 chars end to end (<=5 at the kernel)"},
        "outside": "trees deeper than 2 levels or contents longer than the bound; documents obtained by parsing as the start "
                   "of the round trip (C02/C03 cover the parser); normalizers other than the no-op one",
        "assumptions": [],
    },
}

C04_SHARDS = (["shape=%d;opkind=0;op=%d" % (s_, o) for s_ in range(8) for o in range(9)]
              + ["shape=%d;opkind=1;op=%s" % (s_, g) for s_ in range(8) for g in ("0,1,2,3", "4,5,6,7", "8,9,10,11", "12,13,14,15,16")]
              + ["shape=%d;opkind=2" % s_ for s_ in range(8)])

PROPS["C04"] = {
    "claim": "structural validity of the forest after arbitrary public calls, decided on the real manipulation / "
             "indextree code from constructor-built start forests",
    "harnesses": [
        H("h_c04_step", {"CALLS": 1}, {"CALLS": 2},
          shards={"quick": C04_SHARDS, "thorough": C04_SHARDS},
          budget=(900, 300), partial=("thorough",)),
        H("h_c04_xmlid", shards={"quick": shard_choose("op", 5), "thorough": shard_choose("op", 5)}),
    ],
    "panic_ok": ["h_c04_step"],
    "bounds": {"quick": "7 start forests (5-8 nodes, all text-like contents symbolic) plus forest 0 with adjacent text nodes (consolidation switched off and on again), 1 call drawn from 34 operations with "
                        "every tuple of live nodes as arguments; a parsed document with two xml:id elements x 5 removing / replacing calls "
                        "x 4 targets: xml_id_node returns nothing or a live node",
               "thorough": "same forests, sequences of 2 calls: each of the 112 shards explores 2-call sequences for 300 s in a "
                    "VERIF_SEED-dependent order (the space is not exhausted; evidence lists the shards as partial)"},
    "outside": "histories longer than 2 calls; forests other than the catalogue",
    "assumptions": [],
}

C06_SHARDS = (["shape=%d;opkind=0;op=%d" % (s_, o) for s_ in range(8) for o in range(9)]
              + ["shape=%d;opkind=1" % s_ for s_ in range(8)])

PROPS["C06"] = {
    "claim": "no panic edge is feasible in a manipulation call on live nodes, and on every path that returns Err the "
             "complete read-back (structure, values, liveness of every handle) is unchanged",
    "harnesses": [H("h_c06_step", shards={"quick": C06_SHARDS, "thorough": C06_SHARDS}, budget=(900, 3000))],
    "bounds": {"quick": "7 start forests (5-8 nodes, symbolic contents) plus forest 0 with adjacent text nodes (consolidation switched off and on again), 1 call of 26 operations x every tuple of live nodes "
                        "of every kind", "thorough": "same"},
    "outside": "forests other than the catalogue; element-only accessors on non-elements (documented panics)",
    "assumptions": [],
}

PROPS["C07"] = {
    "claim": "every traversal API equals the list computed from parent()/children() (and the namespace/attribute views) "
             "for every node of the catalogue trees",
    "harnesses": [H("h_c07_axes", shards={"quick": shard_choose("shape", 9), "thorough": shard_choose("shape", 9)}),
                  H("h_c07_all", shards={"quick": shard_choose("shape", 9), "thorough": shard_choose("shape", 9)})],
    "bounds": {"quick": "9 catalogue trees (5-11 nodes incl. attribute/namespace nodes, deep chain, fan), every node as start node",
               "thorough": "same"},
    "outside": "tree shapes outside the catalogue (shapes are concrete per path; the symbolic part is contents and the start node)",
    "assumptions": [],
}

PROPS["C13"] = {
    "claim": "deep_equal / deep_equal_xpath / deep_equal_children / advanced_deep_equal / shallow_equal(_ignore_attributes) / "
             "string_value agree with a canonical-form oracle computed from the read-back, for all contents",
    "harnesses": [H("h_c13_deep_equal", shards={"quick": shard_product(("shape", 4), ("va", 2)), "thorough": shard_product(("shape", 4), ("va", 2))}),
                  H("h_c13_shallow", shards={"quick": shard_product(("vb", 7), ("strip", 4)), "thorough": shard_product(("vb", 7), ("strip", 4))}),
                  H("h_c13_leaves", shards={"quick": shard_choose("ka", 11), "thorough": shard_choose("ka", 11)})],
    "bounds": {"quick": "pairs (base subtree of 4 shapes x 2, one-feature variant out of 13) with every attribute value / text / "
                        "comment / PI content symbolic (1 char each); 8 ignore lists incl. repeated and absent names x 4 ways of stripping the attributes of either element (attribute sets of different sizes, none at all); every pair of 11 kinds of single leaf node (text, comment, PI with / without data and two targets, attribute nodes, namespace nodes) with symbolic contents",
               "thorough": "same"},
    "outside": "subtrees larger than 5 nodes; contents longer than one character; triples (transitivity follows from the "
               "canonical-form equivalence that is asserted pairwise)",
    "assumptions": [],
}

C05_SHARDS = ["shape=%d;consolidate=%d;op=%d" % (s_, c, o) for s_ in range(7) for c in range(3) for o in range(11)]

PROPS["C05"] = {
    "claim": "one successful manipulation call under its documented preconditions leaves exactly the forest an ordered-tree "
             "reference model predicts (position, identity of every other node, merged text contents, liveness)",
    "harnesses": [H("h_c05_model", shards={"quick": C05_SHARDS, "thorough": C05_SHARDS}, budget=(900, 3000)),
                  # "attribute / namespace updates touch exactly one entry": the reference-map harnesses of C11
                  H("h_c11_attrs", {"STEPS": 1}, {"STEPS": 1}, shards={"quick": shard_product(("nn", 3), ("na", 3)), "thorough": shard_product(("nn", 3), ("na", 3))}),
                  H("h_c11_namespaces", {"STEPS": 1}, {"STEPS": 1}, shards={"quick": shard_product(("nn", 3), ("na", 2)), "thorough": shard_product(("nn", 3), ("na", 2))})],
    "bounds": {"quick": "7 start forests x consolidation on / off / switched on after adjacent text nodes were built x 11 operations x every argument tuple satisfying the "
                        "preconditions; all text contents symbolic", "thorough": "same"},
    "outside": "sequences of more than one call (C04 covers two-call histories structurally); which of two merged text nodes "
               "survives is not asserted (the property's wording is ambiguous there)",
    "assumptions": [],
}

PROPS["C11"] = {
    "claim": "after every map-style or node-style update both views of the attribute map and of the namespace map agree "
             "with a reference insertion-ordered map on every accessor; updates keep node and position; the other map and "
             "the children are untouched",
    "harnesses": [H("h_c11_attrs", {"STEPS": 1}, {"STEPS": 2}, shards={"quick": shard_product(("nn", 3), ("na", 3)), "thorough": shard_product(("nn", 3), ("na", 3), ("op", 16))}),
                  H("h_c11_namespaces", {"STEPS": 1}, {"STEPS": 2}, shards={"quick": shard_product(("nn", 3), ("na", 2)), "thorough": shard_product(("nn", 3), ("na", 2))})],
    "bounds": {"quick": "element with 0-2 namespace and 0-2 attribute nodes, 1 update out of 16 (attributes, incl. the occupied / vacant entry API) / 10 (namespaces) "
                        "on 3 keys, values symbolic", "thorough": "every sequence of 2 updates"},
    "outside": "to_hashmap beyond size and per-key lookup (HashMap is summarised); serialisation order of the entries (see C01/C16)",
    "assumptions": [],
}

PROPS["C09"] = {
    "claim": "namespace_for_prefix / prefix_for_namespace / is_prefix_defined / namespaces_in_scope / inherited_prefixes / "
             "unresolved_namespaces / node_name_ref / full_name agree with a nearest-declaration-wins reference scope",
    "harnesses": [H("h_c09_scope", {"NC1": 3}, {"NC1": 8}, shards={"quick": shard_product(("c0", 8), ("node", 4)), "thorough": shard_product(("c0", 8), ("node", 4))}, budget=(900, 2400)),
                  H("h_c09_loose")],
    "bounds": {"quick": "7 kinds of parentless node (text, comment, PI, attribute, namespace, document, element): only xml is in scope; "
                        "element chains of depth 3 (the innermost element also carries xml:lang), outer and inner element with one of 8 (inner: 9) declaration layouts over prefixes "
                        "{'',p,q} and namespaces {none,A,B}, middle element one of 3 (thorough: 8; 512 layouts), element name in 3 namespaces, attribute name in 2; queries from the "
                        "innermost element, its text child, its attribute node and the middle element", "thorough": "same"},
    "outside": "deeper chains, more than two declarations per element, declarations on unattached siblings",
    "assumptions": ["HashMap/HashSet iteration order is modelled as insertion order (Prefixes maps are compared as sets)"],
}

PROPS["C02"] = {
    "claim": "parsing (xmlparser tokenizer + xot DocumentBuilder, real code) yields what the text denotes: character data "
             "against an independent reference decoder, attribute-value normalisation, CDATA/text merging, namespace scoping "
             "of prefixed/unprefixed names, declarations on the element that wrote them, xml:id normalisation and lookup, "
             "parse_fragment vs wrapped parse",
    "harnesses": [
        H("h_c02_content_kernel", {"N": 3}, {"N": 5}, shards={"quick": shard_choose("len", 4), "thorough": shard_choose("len", 6)}),
        H("h_c02_text", shards={"quick": shard_choose("k1", 9), "thorough": shard_choose("k1", 9)}),
        H("h_c02_attr", shards={"quick": shard_choose("k1", 6), "thorough": shard_choose("k1", 6)}),
        H("h_c02_names", shards={"quick": shard_choose("c0", 8), "thorough": shard_choose("c0", 8)}),
        H("h_c02_fragment", shards={"quick": shard_choose("k", 8), "thorough": shard_choose("k", 8)}),
        H("h_c02_xmlid", {"N": 3}, {"N": 4}, shards={"quick": shard_choose("len", 5), "thorough": shard_choose("len", 6)}),
        H("h_c02_bytes", shards={"quick": shard_choose("label", 6), "thorough": shard_choose("label", 6)}),
        # shared with C03: namespace scoping between top-level siblings of a fragment; character references by value
        H("h_c03_fragment_scope", shards={"quick": shard_choose("shape", 3), "thorough": shard_choose("shape", 3)}),
        H("h_c03_charref_value", {"DIGITS": 5}, {"DIGITS": 6}, shards={"quick": CHARREF_SHARDS(5), "thorough": CHARREF_SHARDS(6)}),
    ],
    "bounds": {"quick": "character-data spellings of <=3 arbitrary chars at the kernel; two-piece spellings (literal char, entity, "
                        "char reference, CR LF, CDATA) end to end in text and in both quote styles of attributes; 8x8 declaration "
                        "layouts x 3 element prefixes x 3 attribute prefixes; 8 fragment templates; xml:id values of <=3 chars and the "
                        "template p??q?r (several internal space runs); CDATA pieces with CR / CR LF / empty content; parse_bytes "
                        "of 6 declarations (none, UTF-8, ISO-8859-1, windows-1252, us-ascii, iso-8859-1 + standalone) x 5 "
                        "non-ASCII byte sequences + one arbitrary ASCII byte against a reference windows-1252 / UTF-8 decoder",
               "thorough": "<=5 chars at the kernel, xml:id <=4"},
    "outside": "parse_bytes with symbolic non-ASCII bytes, UTF-16 / BOM-switched and multi-byte legacy encodings; documents "
               "longer than the templates",
    "assumptions": ["the xmlparser 0.13.6 tokenizer is interpreted from its MIR like xot itself, not modelled",
                    "parse_bytes: xot::encoding, xhtmlchardet::detect and encoding_rs::Encoding::for_label are interpreted from "
                    "their MIR; encoding_rs::Encoding::decode (SIMD / table code) is a value-level stub: UTF-8 (ill-formed parts -> "
                    "U+FFFD), the WHATWG windows-1252 index, identity on ASCII for other ASCII-compatible encodings; anything "
                    "else ends the path as unsupported (inconclusive, never a verdict); String::from_utf8_lossy, str::from_utf8, "
                    "str::find, str::replace, str::to_lowercase (ASCII) are value-level summaries"],
}

PROPS["C03"] = {
    "claim": "the parse entry points never reach a panic edge and reject ill-formed input, on the real tokenizer + builder code",
    "harnesses": [
        H("h_c03_content_kernel", {"N": 3}, {"N": 5}, shards={"quick": shard_choose("len", 4), "thorough": shard_choose("len", 6)}),
        H("h_c03_tags", {"PIECES": 3}, {"PIECES": 4}, shards={"quick": shard_product(("fragment", 2), ("k0", 7)), "thorough": shard_product(("fragment", 2), ("k0", 7), ("k1", 7))}),
        H("h_c03_rejects", shards={"quick": shard_choose("k", 17), "thorough": shard_choose("k", 17)}),
        H("h_c03_fragment_scope", shards={"quick": shard_choose("shape", 3), "thorough": shard_choose("shape", 3)}),
        H("h_c03_charref_value", {"DIGITS": 5}, {"DIGITS": 6}, shards={"quick": CHARREF_SHARDS(5), "thorough": CHARREF_SHARDS(6)}),
        H("h_c03_total", {"N": 2}, {"N": 3}, shards={"quick": shard_product(("pre", 8), ("fragment", 2)), "thorough": shard_product(("pre", 8), ("fragment", 2))}),
        H("h_c03_bytes", {"NB": 4}, {"NB": 4}, shards={"quick": ["len=0;cls=0"] + ["len=%d;cls=%d" % (l, c) for l in range(1, 5) for c in range(3)],
                                                        "thorough": ["len=0;cls=0"] + ["len=%d;cls=%d" % (l, c) for l in range(1, 5) for c in range(3)]}),
    ],
    "bounds": {"quick": "character data of <=3 arbitrary chars with any base offset <=2^40; every sequence of 3 tag/text/comment "
                        "pieces in document and fragment mode (accepted ones must validate and round-trip); 12 ill-formedness "
                        "templates; 8 markup prefixes followed by <=2 arbitrary ASCII chars for totality; parse_bytes on every ASCII byte "
                        "string of <=4 bytes (returns, and agrees with parse of the same text)",
               "thorough": "<=5 chars, 4 pieces, 3 free chars"},
    "outside": "byte sequences with symbolic non-ASCII bytes or longer than 4 bytes (the declared-encoding templates of C02's "
               "h_c02_bytes also run panic-free); unknown encoding labels; inputs longer than the bounds",
    "assumptions": ["h_c03_bytes: encoding_rs::Encoding::decode is a value-level stub (identity on ASCII); detection and label "
                    "lookup are the real code"],
}

PROPS["C17"] = {
    "claim": "every recorded span slices the source to the spelling of its item, for symbolic contents and shifted offsets; "
             "every ParseError span lies inside the source on char boundaries",
    "harnesses": [
        H("h_c17_spans", shards={"quick": shard_product(("group", 3), ("pad", 3), ("fragment", 2), ("lead", 2)), "thorough": shard_product(("group", 3), ("pad", 3), ("fragment", 2), ("lead", 2))}),
        H("h_c17_spellings", shards={"quick": ["sv=%d;st=%d" % (i, (i + k) % 5) for i in range(5) for k in (0, 2)], "thorough": shard_product(("sv", 5), ("st", 5), ("before", 2))}),
        H("h_c17_error_spans", shards={"quick": shard_choose("k", 11), "thorough": shard_choose("k", 11)}),
        H("h_c17_cdata_edges", shards={"quick": shard_choose("k", 4), "thorough": shard_choose("k", 4)}),
    ],
    "bounds": {"quick": "one document template containing every span kind (prefixed element, 2 attributes, text, comment, PI, "
                        "text+CDATA+text run, empty element), contents symbolic two at a time (1 char each), 3 offset shifts, parse and "
                        "parse_fragment; attribute value and text spelled with an entity, character references, CR LF before / after a symbolic char (quick: 10 of the 25 spelling pairs) "
                        "(span = raw spelling, node = decoded value, neighbouring spans unaffected); 11 error templates x 3 shifts; text made of CDATA sections (content empty or one symbolic char) alone, first or last in its run", "thorough": "same"},
    "outside": "documents other than the templates",
    "assumptions": [],
}

PROPS["C18"] = {
    "claim": "remove_insignificant_whitespace removes exactly the text nodes the definition names, for all text contents "
             "(the solver picks the characters) and xml:space layouts, and is idempotent",
    "harnesses": [H("h_c18_strip", {"PICKS": 2, "TARGETS": 1}, {"PICKS": 3, "TARGETS": 2}, shards={"quick": shard_product(("xs0", 4), ("xs1", 4)), "thorough": shard_product(("xs0", 4), ("xs1", 4))}),
                  H("h_c18_adjacent")],
    "bounds": {"quick": "<a>t0<p>t1<b/>t2<!--c-->t3</p>t4</a>: t1,t2 symbolic (1 char, any XML Char), t0,t3,t4 each one of space / letter (thorough: also U+00A0), "
                        "xml:space none/preserve/default/other on both elements, called on the document and on the element; adjacent text nodes built with consolidation off (4 texts, one symbolic)",
               "thorough": "same"},
    "outside": "text longer than one character; deeper nesting of xml:space",
    "assumptions": [],
}

PROPS["C12"] = {
    "claim": "clone_node gives an unattached copy made of new nodes, equal to the source incl. declarations and attribute "
             "order, leaves the source unchanged, and the two sides are independent under later mutation; clone_with_prefixes "
             "adds only in-scope bindings and the clone serialises whenever the source did; Xot::clone gives a store in which "
             "every handle and id denotes an equal node / name and which is independent under later mutation of either store",
    "harnesses": [H("h_c12_clone", shards={"quick": shard_product(("shape", 9), ("consolidate", 2)), "thorough": shard_product(("shape", 9), ("consolidate", 2))}),
                  H("h_c12_clone_with_prefixes", shards={"quick": shard_product(("c0", 8), ("fork", 3)), "thorough": shard_product(("c0", 8), ("fork", 3))}),
                  H("h_c12_xot_clone", shards={"quick": shard_choose("shape", 7), "thorough": shard_choose("shape", 7)})],
    "bounds": {"quick": "9 kinds of source node in an 11-node document (symbolic contents, adjacent text when consolidation was off), "
                        "consolidation on/off at clone time, one later mutation (3 kinds) of any node of either side; 8x8 declaration "
                        "layouts x 3x3 element namespaces x 2 attribute namespaces x (no sibling / an earlier sibling that declares A / B itself) for clone_with_prefixes; Xot::clone of the 7 start "
                        "forests followed by one mutation (3 kinds) of any node in either store", "thorough": "same"},
    "outside": "longer mutation histories; hashing inside the cloned id tables (HashMap is summarised)",
    "assumptions": [],
}

PROPS["C20"] = {
    "claim": "fixed::Document::xotify, three stepwise construction orders and parsing the serialisation give the same tree "
             "(incl. declarations, attribute order, leading/trailing comments and PIs)",
    "harnesses": [H("h_c20_three_ways", shards={"quick": shard_product(("group", 3), ("before", 3), ("after", 3)), "thorough": shard_product(("group", 3), ("before", 3), ("after", 3))})],
    "bounds": {"quick": "one abstract document with text / attribute / comment content symbolic one at a time, 0-2 leading and 0-2 trailing "
                        "comments/PIs, 4 construction orders", "thorough": "same"},
    "outside": "abstract documents other than the template shape",
    "assumptions": [],
}

PROPS["C08"] = {
    "claim": "ids are a one-to-one interning: the index<->id lemma for every usize (no bound), and the interning laws for "
             "symbolic strings through add_prefix / add_namespace / add_name_ns / name lookups, built-ins, parsing and Xot::clone",
    "harnesses": [
        H("h_c08_index_round_trip"),
        H("h_c08_interning", {"LEN": 2}, {"LEN": 3}, shards={"quick": shard_product(("table", 3), ("l1", 2)), "thorough": shard_product(("table", 3), ("l1", 3))}),
        H("h_c08_builtins_and_parse"),
        H("h_c08_parsed_names", shards={"quick": shard_choose("order", 2), "thorough": shard_choose("order", 2)}),
        H("h_c08_html5"),
    ],
    "bounds": {"quick": "index lemma: all 2^64 indices per id type; interning: 3 registrations of arbitrary strings of <=1 char (thorough <=2) "
                        "per table; built-in ids; one parsed document with a symbolic letter as prefix / attribute / PI target; a parsed document whose "
                        "names are only looked up read-only (same spelling under 3 bindings x 2 sibling orders, names longer than any "
                        "API-registered one, also on a clone); ids of 6 concrete names x 3 namespaces across two html5() calls",
               "thorough": "same"},
    "outside": "tables with more than 3 user registrations as symbolic pre-state (the index lemma carries the size dimension); "
               "hashing (HashMap is summarised as a correct map)",
    "assumptions": ["std HashMap behaves as a map (summarised as an association list with solver-decided key equality)"],
}

PROPS["C10"] = {
    "claim": "whatever to_string accepts re-parses with the same expanded names (documents and subtrees serialised on their "
             "own), and create_missing_prefixes (called on document, root or inner element, once and again after adding a node "
             "in a new namespace) makes the tree serialisable without changing any name, attribute or content",
    "harnesses": [
        H("h_c10_names", {"SAMEINNER": 1}, {"SAMEINNER": 0}, shards={"quick": shard_product(("c0", 8), ("root", 2), ("ns0", 3)), "thorough": shard_product(("c0", 8), ("root", 2), ("c1", 8))}),
        H("h_c10_loose", shards={"quick": shard_choose("what", 7), "thorough": shard_choose("what", 7)}),
        H("h_c10_missing_prefixes", {"CFG": 4, "NSK": 2}, {"CFG": 5, "NSK": 3}, shards={"quick": shard_product(("c0", 4), ("target", 4), ("c1", 4)), "thorough": shard_product(("c0", 5), ("target", 4), ("c1", 5))}, budget=(900, 3000)),
    ],
    "bounds": {"quick": "3-level element chains, 8x8 declaration layouts, element names in {none,A,B}^2 (quick: both inner elements in the same namespace; thorough ^3), attribute in {none,A}; "
                        "create_missing_prefixes: 4x4 layouts, names in {none,A}^3, 4 call targets, two rounds; single unattached nodes of 7 kinds "
                        "through the string, token and indented entry points with / without a CDATA request (returns; text comes back)",
               "thorough": "5x5 layouts and {none,A,B}^3 for create_missing_prefixes"},
    "outside": "fragments with several top-level elements; deeper trees",
    "assumptions": ["HashSet iteration order (which decides the generated prefix names) is modelled as insertion order"],
}

PROPS["C15"] = {
    "claim": "deduplicate_namespaces removes only declarations, keeps every expanded name / attribute / content, keeps the "
             "tree serialisable and re-parseable to the same canonical form, and is idempotent",
    "harnesses": [H("h_c15_dedup", {"CFG": 5, "CFG2": 3, "NSK": 2, "SAMEINNER": 1, "DEDUPORDER": 1}, {"CFG": 8, "NSK": 2}, shards={"quick": shard_product(("c0", 5), ("c1", 5), ("c3", 3)), "thorough": shard_product(("c0", 8), ("c1", 8), ("c3", 3))}, budget=(900, 3000))],
    "bounds": {"quick": "4-level element chains with 5x5x3x3 declaration layouts (same namespace under several prefixes, prefix "
                        "redeclared down the path, default namespace interleaved, xmlns=\"\"), names in {none,A}^3, a prefixed "
                        "attribute in A at the bottom", "thorough": "8x8x8x3 layouts"},
    "outside": "forks (sibling subtrees) and deeper chains",
    "assumptions": [],
}

PROPS["C14"] = {
    "claim": "CDATA-section elements, unescaped_gt and the XML declaration change only the spelling (output re-parses deep-equal "
             "for all contents incl. ']' / '>' runs); indentation only adds whitespace-only text nodes and none inside mixed "
             "content, xml:space=preserve scope or suppressed elements",
    "harnesses": [
        H("h_c14_cdata", {"N": 2}, {"N": 3, "SYMU": 0}, shards={"quick": shard_product(("len", 4), ("cdata", 3)), "thorough": shard_product(("len", 5), ("cdata", 3))}),
        H("h_c14_gt", {"N": 2}, {"N": 4}, shards={"quick": shard_product(("len", 4), ("decl", 3)), "thorough": shard_product(("len", 6), ("decl", 3))}),
        H("h_c14_pretty", {"SYMT": 0}, {"SYMT": 1}, shards={"quick": shard_product(("xs_a", 3), ("xs_b", 3), ("mixed", 4)), "thorough": shard_product(("xs_a", 3), ("xs_b", 3), ("mixed", 4))}),
    ],
    "bounds": {"quick": "CDATA: text of <=2 symbolic chars, or c]]>c / c]c]> with c any XML Char (any UTF-8 width) (+ ']]>' in a child) under 3 CDATA-element sets x unescaped_gt; unescaped_gt: "
                        "<=2 symbolic chars or the two ']]>' templates x 3 declaration settings; indentation: a 5-element tree with xml:space none/preserve/"
                        "default on 3 levels, a text child at 4 positions, 3 suppress lists, document and element",
               "thorough": "CDATA <=3, unescaped_gt <=4, symbolic text child in the indentation tree"},
    "outside": "doctype output; normalizers; longer runs of ']' and '>' than the bound",
    "assumptions": [],
}

PROPS["C16"] = {
    "claim": "token texts (with their space flags) concatenate to the string serialisation, pretty tokens with indentation / "
             "newline applied give the pretty string, the Write entry point emits the same bytes, and the output-event stream "
             "is what the tree dictates",
    "harnesses": [
        H("h_c16_tokens", shards={"quick": shard_product(("node", 2), ("cdata", 3), ("shadow", 3)), "thorough": shard_product(("node", 2), ("cdata", 3), ("shadow", 3))}),
        H("h_c16_outputs", shards={"quick": shard_choose("shadow", 3), "thorough": shard_choose("shadow", 3)}),
        H("h_c16_deep", {"DEPTH": 36}, {"DEPTH": 70}),
    ],
    "bounds": {"quick": "one 8-node tree (attribute and text symbolic, an empty element re-declaring prefixes before a sibling that "
                        "uses the outer binding, comment, PI), document and root element, 3 CDATA sets, unescaped_gt, suppress list",
               "thorough": "same"},
    "outside": "other tree shapes; nesting deeper than 36 (thorough 70) levels",
    "assumptions": [],
}

PROPS["C19"] = {
    "claim": "HTML5 serialisation returns without panicking, starts with the doctype, writes HTML / XHTML / MathML / SVG elements "
             "unprefixed, never self-closes HTML elements, gives void elements (any letter case) no end tag and all others one, "
             "puts MathML / SVG under a default-namespace declaration, escapes '<' and '&' from text except in script / style / "
             "requested CDATA, never leaves a raw '\"' or '&' in attribute values and refuses a processing instruction with '>'",
    "harnesses": [
        H("h_c19_names", {"SYMT": 1, "NAMES": 16}, {"SYMT": 2, "NAMES": 16},
          shards={"quick": shard_product(("nm", 16), ("nk", 3)), "thorough": shard_product(("nm", 16), ("nk", 3), ("ind", 3))}),
        H("h_c19_attrs", {"SYMA": 2, "SYMA2": 1}, {"SYMA": 3, "SYMA2": 2},
          shards={"quick": shard_product(("nk", 2), ("extra", 4), ("el", 2)), "thorough": shard_product(("nk", 2), ("extra", 4), ("el", 2), ("ind", 2))}),
        H("h_c19_embedded", shards={"quick": shard_product(("shape", 8), ("top", 3)), "thorough": shard_product(("shape", 8), ("top", 3))}),
        H("h_c19_loose", {"SYMT": 2}, {"SYMT": 3}, shards={"quick": shard_choose("what", 7), "thorough": shard_choose("what", 7)}),
        H("h_c19_pi", {"PILEN": 3}, {"PILEN": 4}, shards={"quick": shard_choose("where", 3), "thorough": shard_product(("where", 3), ("len", 4))}),
    ],
    "bounds": {"quick": "16 element names (void / phrasing / formatted / raw-text / unknown, lower, upper and mixed case) x no namespace, "
                        "XHTML default, XHTML prefixed, holding one symbolic char of text, with / without CDATA request, 3 indentation "
                        "settings, document and element as the serialised node; attribute values of 2 symbolic chars (1 + 1 with a namespaced "
                        "attribute), boolean candidates; 8 MathML / SVG / foreign-namespace shapes (incl. XHTML void elements inside SVG) x 3 serialised nodes; text under a document and 6 kinds of "
                        "single node with 2 symbolic chars; processing instruction data of <= 2 symbolic chars at 3 positions",
               "thorough": "text 2, attribute 3, loose text 3, PI data <= 3 symbolic chars"},
    "outside": "longer contents; other tree shapes; normalizers; names outside the 16; the matcher is silent about which namespace "
               "declarations are written, boolean attribute minimisation, '>' / U+00A0 spelling and where indentation goes",
    "assumptions": [],
}

PROPS["DBG"] = {
    "claim": "debug probes", "harnesses": [H("h_probe_tree"), H("h_probe_tostring"), H("h_probe_parse"), H("h_probe_html"), H("h_probe_bytes")],
    "bounds": {"quick": "-", "thorough": "-"}, "outside": "", "assumptions": [],
}

_WIP = "check not built yet (work in progress; will be claimed or given its final reason before the end)"
NOT_APPLICABLE = {("C%02d" % i): _WIP for i in range(1, 21)}
