#!/bin/sh
# r4_one.sh <PROP> <n> <idx>: take sub-agent deliverable /tmp/r4/<PROP>-out/<n>, store as seeded/<PROP>-<idx>, confirm, run the isolated seed test
p=$1; n=$2; idx=$3; src=/tmp/r4/$p-out/$n; d=/verif/seeded/$p-$idx
mkdir -p $d; cp $src/patch.diff $src/demo.rs $d/; cp $src/notes.md $d/ 2>/dev/null
/verif/tools/confirm_seed.sh $d > /dev/null 2>&1
out=$(/verif/tools/seedtest_iso.sh $d/patch.diff $p 2>&1)
echo "$out" > $d/seedtest.txt
echo "R4 $p-$idx :: $(tr '\n' '|' < $d/confirm.txt) :: $(echo "$out" | head -3 | cut -c1-200 | tr '\n' '|')"
