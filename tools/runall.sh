#!/bin/sh
# runall.sh [tier] : every claimed check in turn on the current /repo tree; one summary line each
tier=${1:-quick}
cd "$(dirname "$0")/.."
for id in $(python3 -c "import json;print(' '.join(c['property_id'] if 'property_id' in c else c['id'] for c in json.load(open('MANIFEST.json'))['checks']))"); do
  s=$(date +%s)
  out=$(./check $id --tier $tier 2>&1); rc=$?
  e=$(date +%s)
  echo "$id rc=$rc t=$((e-s))s $(echo "$out" | grep -E "^$id:" | tail -1)"
  echo "$out" | grep -E "^(VIOLATION|INCONCLUSIVE|KNOWN-FINDING)" | cut -c1-200 | sort | uniq -c | head -12
done
