#!/usr/bin/env python3
"""saveseed.py <seed-id> <prop> <src-dir> <k> <caught-by> <needs...>  -- store a validated seeded change"""
import json, os, shutil, sys
sid, prop, src, k, caught = sys.argv[1:6]
needs = " ".join(sys.argv[6:])
dst = os.path.join("/verif/seeded", sid)
os.makedirs(dst, exist_ok=True)
shutil.copy(os.path.join(src, "patch%s.diff" % k), os.path.join(dst, "patch.diff"))
shutil.copy(os.path.join(src, "demo%s.rs" % k), os.path.join(dst, "demo.rs"))
notes = os.path.join(src, "notes%s.md" % k)
if os.path.exists(notes):
    shutil.copy(notes, os.path.join(dst, "notes.md"))
meta = {"id": sid, "property": prop, "needs_to_manifest": needs, "caught_by": caught,
        "confirmed": "patch applies to /repo HEAD; existing suite passes with it (sub-agent run, re-run by me: see DESIGN); "
                     "demo.rs fails with the patch and passes without; ./check %s exits 1 with a replayed VIOLATION" % prop,
        "ran": ["git -C /repo apply patch.diff", "./check %s --tier quick" % prop, "git -C /repo checkout -- ."]}
json.dump(meta, open(os.path.join(dst, "meta.json"), "w"), indent=1)
print("saved", dst)
