#!/bin/sh
# seedall.sh: every stored seeded change against its property's quick check on /repo HEAD (apply, check, revert)
cd "$(dirname "$0")/.."
for d in seeded/${SEEDGLOB:-*}/; do
  id=$(basename $d); prop=${id%-*}
  if ! git -C /repo apply --check $PWD/$d/patch.diff 2>/dev/null; then echo "SEEDALL $id patch-does-not-apply"; continue; fi
  out=$(tools/seedtest.sh $PWD/$d/patch.diff $prop 2>&1)
  rc=$(echo "$out" | sed -n 's/^SEEDTEST .* rc=\([0-9]*\).*/\1/p' | head -1)
  labels=$(echo "$out" | grep -o "^VIOLATION property=[A-Z0-9]* replay=[^ ]*" | sed 's/.*replays\///' | sed 's/-NEW.*//' | sort -u | head -3 | tr '\n' ' ')
  echo "SEEDALL $id rc=$rc $labels"
done
git -C /repo status --short
