#!/bin/sh
# usage: seedtest.sh <patch.diff> <PROP> [tier]  -- applies the patch to /repo, runs the check, reverts
set -u
patch=$1; prop=$2; tier=${3:-quick}
cd /repo || exit 2
if ! git diff --quiet; then echo "repo dirty"; exit 2; fi
if ! git apply --check "$patch" 2>/dev/null; then
  if ! git apply --3way "$patch" 2>/dev/null; then echo "PATCH-DOES-NOT-APPLY $patch"; git reset -q --hard HEAD; exit 3; fi
  git reset -q
else
  git apply "$patch"
fi
cd /verif && ./check "$prop" --tier "$tier" > /tmp/seedtest.$prop.out 2>&1
rc=$?
cd /repo && git checkout -- . && git clean -fdq src
echo "SEEDTEST $patch $prop rc=$rc"
grep -E "^VIOLATION|^INCONCLUSIVE|^KNOWN|: (HELD|VIOLATED|INCONCLUSIVE)" /tmp/seedtest.$prop.out | cut -c1-220 | head -8
exit 0
