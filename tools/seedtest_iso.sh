#!/bin/sh
# seedtest_iso.sh <patch.diff> <PROP> [tier]: like seedtest.sh but never touches /repo's working tree:
# a scratch worktree of /repo HEAD gets the patch, a scratch copy of /verif (harness path dependency re-pointed,
# VERIF_REPO set) runs the check against it; both are removed afterwards. Several can run at once.
set -u
patch=$1; prop=$2; tier=${3:-quick}
wt=/tmp/stw.$$; vc=/tmp/stv.$$
git -C /repo worktree add -q --detach $wt HEAD || exit 2
if ! git -C $wt apply "$patch" 2>/dev/null; then echo "PATCH-DOES-NOT-APPLY $patch"; git -C /repo worktree remove --force $wt; exit 3; fi
mkdir -p $vc/.work/bin
( cd /verif && tar cf - --exclude=.work --exclude=.git --exclude=seeded --exclude='__pycache__' . ) | ( cd $vc && tar xf - )
cp /verif/.work/bin/mirdump $vc/.work/bin/ 2>/dev/null
cp -r /verif/.work/mirtarget /verif/.work/replaytarget $vc/.work/ 2>/dev/null
sed -i "s|path = \"/repo\"|path = \"$wt\"|" $vc/harness/Cargo.toml
( cd $vc && VERIF_REPO=$wt VERIF_JOBS=${VERIF_JOBS:-8} ./check "$prop" --tier "$tier" ) > /tmp/seedtest_iso.$$.out 2>&1
rc=$?
echo "SEEDTEST $patch $prop rc=$rc"
grep -E "^VIOLATION|^INCONCLUSIVE|^KNOWN|: (HELD|VIOLATED|INCONCLUSIVE)" /tmp/seedtest_iso.$$.out | cut -c1-220 | head -8
rm -rf $vc /tmp/seedtest_iso.$$.out
git -C /repo worktree remove --force $wt
exit 0
