#!/bin/sh
# Build the framework offline from files on disk: the mirdump rustc driver,
# the MIR dump of the harness crate and the native replay binaries (warms the
# cargo target dirs under /verif/.work so that checks only pay incremental cost).
set -e
cd "$(dirname "$0")/.."
export CARGO_NET_OFFLINE=true
mkdir -p .work/bin
rustc +nightly --edition 2021 -O mirdump/main.rs -o .work/bin/mirdump
python3-vt - <<'PY'
import sys
sys.path.insert(0, ".")
from tools import check
check.dump_mir()
check.build_replay("dev")
check.build_replay("release")
print("setup ok")
PY
